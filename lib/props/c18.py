"""C18 - the command-line tool reports exactly what the library decides (DESIGN.md 6, C18).

Three parties are compared on every invocation of a generated matrix:
  observed   : the real `cddl` binary of /repo's working tree (log lines + exit status),
  model      : Cli.case_validate / case_compile (Coq, extracted) fed with the library verdicts,
  expectation: the property itself - the verdict of the route's library call WITH THE SAME
               FEATURES (obtained from the library through harness/src/bin/c18.rs).
model != observed        -> VIOLATION (the model no longer mirrors cli.rs)
expectation != observed  -> VIOLATION (the tool does not report what the library decides; e.g. a route dropping --features)
The witnesses of the two repaired findings (8c0094b) run first as a corpus.
"""
import json, os, random, re, shutil, subprocess
from concurrent.futures import ThreadPoolExecutor
from .. import common
from ..common import Result

PROP = "C18"
PROP_FILE = "theories/Props/C18.v"
EXTRACT = "theories/Extract/ExtractCli.vo"
SCRATCH = os.path.join(common.CACHE, "c18")
DIR = "DIR"          # marker: the path is a directory

# ---------------------------------------------------------------------------
# universe: schema files and documents
# ---------------------------------------------------------------------------

SCHEMAS = {
    "plain": b'a = { n: int, ? x: tstr }\n',
    # member x is only checked when feature "fx" is enabled (validator semantics of .feature):
    # {"n":1,"x":5} is accepted without features and rejected with --features fx (JSON and CBOR)
    "feat": b'a = { n: int, ? x: b .feature "fx" }\nb = [* int]\n',
    "featy": b'a = [* int] .feature "fy"\n',
    "uint": b'a = uint\n',
    "any": b'a = any\n',
    "csv": b'c = [* r]\nr = [tstr, uint]\n',
    "csvh": b'c = [h, * r]\nh = [tstr, tstr]\nr = [tstr, uint]\n',
    "csvf": b'c = [* r]\nr = [tstr, uint .feature "fx"]\n',
    "undef": b'a = b\n',
    # for the byte-exactness family (stdin bytes must reach the library unchanged)
    "pair_ii": b'root = [int, int]\n',
    "pair_it": b'root = [int, tstr]\n',
    "pair_ib": b'root = [int, bstr]\n',
    "int": b'root = int\n',
    # compiling schemas whose root is NOT the first rule (the root is the first type rule without generic
    # parameters, wherever it stands)
    "gen_first": b'message<t> = { body: t }\nroot = message<int>\n',
    "group_first": b'pair = (n: int, ? x: tstr)\na = { pair }\n',
    "gens_first": b'm1<t> = { body: t }\nm2<t, u> = [t, u]\ng = (k: int)\nroot = m1<int> / m2<int, tstr>\n',
    "alt_only": b'root /= { n: int }\nroot /= [* int]\n',           # root defined through /= only
    "csvgen": b'rows<t> = [* [tstr, t]]\nc = rows<uint>\n',
    "csvgrp": b'rec = (tstr, uint)\nc = [* [rec]]\n',
    # schemas that do not compile / cannot be read
    "bad": b'a = \n',
    "bad2": b'a = { n: int \n',
    "noroot": b'g = (a: int)\n',
    "gen_only": b'm<t> = [t]\n',                       # parses, but every type rule is generic: no root
    "group_gen": b'g = (a: int)\nm<t> = [t]\n',
    "empty": b'',
    "nonutf": b'a = int\n; \xff\xfe\n',
    "dir": DIR,
    "missing": None,
}

DOCS = {
    "j_ok": b'{"n":1}', "j_x5": b'{"n":1,"x":5}', "j_xa": b'{"n":1,"x":[1]}', "j_xs": b'{"n":1,"x":"\xc3\xa9"}',
    "j_body": b'{"body":3}', "j_bodys": b'{"body":"x"}', "j_pair": b'[1,"a"]',
    "c_body": bytes.fromhex("a164626f647903"), "c_bodys": bytes.fromhex("a164626f64796178"), "c_pair": bytes.fromhex("82016161"),
    "j_bad": b'{"n":"q"}', "j_mal": b'{"n":', "j_2": b'2', "j_v": b'"v"', "j_arr": b'[1,2]', "j_arrs": b'["a"]',
    "empty": b'',
    "c_ok": bytes.fromhex("a1616e01"), "c_x5": bytes.fromhex("a2616e01617805"), "c_xa": bytes.fromhex("a2616e0161788101"),
    "c_bad": bytes.fromhex("a1616e6171"), "c_mal": bytes.fromhex("a161"),
    "c_2": bytes.fromhex("02"),            # a CBOR item that is also valid UTF-8: stdin treats it as JSON text
    "c_v": bytes.fromhex("6176"),          # likewise (text string "v" = the characters `av`)
    "c_arr": bytes.fromhex("820102"), "c_arrs": bytes.fromhex("816161"), "c_big": bytes.fromhex("1903e8"),
    "c_indef": bytes.fromhex("9f0102ff"),
    "s_ok": b'bob,3\namy,4\n', "s_hdr": b'name,age\nbob,3\n', "s_numhdr": b'1,2\nbob,3\n', "s_bad": b'bob,x\n',
    "s_int": b'5\n', "s_q": b'"a,b",3\n',
    "nonutf": b'{"n":1}\xff',
    "dir": DIR,
    "missing": None,
}

BASE_DOCS = list(DOCS)       # the documents used by the general classes

# Byte-exactness family: documents whose first / last byte has the value of an ASCII white-space (or
# near white-space) character.  The tool must hand the bytes it read to the library unchanged; a
# `trim` before the UTF-8 sniffing or before the library call truncates a CBOR item whose own last
# byte is 0x20 (nint -1), 0x0a (uint 10), ... or the low byte of a multi-byte argument (seeded change
# C18-4), and makes JSON with a trailing form feed acceptable.
WS = [0x09, 0x0a, 0x0b, 0x0c, 0x0d, 0x20]
EDGE = {}        # name -> (bytes, schemas on which it is run: one accepting, one rejecting)
for _w in WS:
    _h = "%02x" % _w
    _b = bytes([_w])
    EDGE["w_int_" + _h] = (bytes.fromhex("8201") + _b, ["pair_ii", "pair_it"])                      # [1, <9..13 | -1>]
    EDGE["w_txt_" + _h] = (bytes.fromhex("82016261") + _b, ["pair_it", "pair_ii"])                  # [1, "a<ws>"]
    EDGE["w_bst_" + _h] = (bytes.fromhex("820142ff") + _b, ["pair_ib", "pair_ii"])                  # [1, h'ff<ws>']
    EDGE["w_a2_" + _h] = (bytes.fromhex("82011901") + _b, ["pair_ii", "pair_it"])                   # [1, 256 + ws]
    EDGE["w_a4_" + _h] = (bytes.fromhex("82011a000100") + _b, ["pair_ii", "pair_it"])               # 4-byte argument
    EDGE["w_a8_" + _h] = (bytes.fromhex("82011b00000001000000") + _b, ["pair_ii", "pair_ib"])       # 8-byte argument
    EDGE["w_ind_" + _h] = (bytes.fromhex("9f01") + _b + b"\xff", ["pair_ii", "pair_it"])           # indefinite array, ws byte inside
    EDGE["w_first_" + _h] = (_b + b"\xff", ["int", "uint"])                                        # first byte is the item (9..13 | -1), then junk
    EDGE["w_tag_" + _h] = (b"\xc1" + _b, ["any", "pair_ii"])                                          # tag 1 on the integer <ws>
    EDGE["w_nl_" + _h] = (bytes.fromhex("820102") + _b, ["pair_ii", "pair_it"])                     # complete item followed by a stray ws byte
    EDGE["w_jt_" + _h] = (b"[1,-1]" + _b, ["pair_ii", "pair_it"])                                   # JSON + trailing ws (0b/0c are not JSON white space)
    EDGE["w_jl_" + _h] = (_b + b"[1,-1]", ["pair_ii", "pair_it"])                                   # leading
    EDGE["w_jb_" + _h] = (_b + b' [1, "a' + _b.replace(b"\n", b" ").replace(b"\r", b" ") + b'"] ' + _b, ["pair_it", "pair_ii"])
EDGE["w_j_crlf"] = (b'\r\n {"n":1}\r\n\r\n', ["plain", "pair_ii"])
EDGE["w_j_only_ws"] = (b' \n\t', ["any", "plain"])
EDGE["w_c_only_20"] = (b'\x20', ["int", "uint"])              # the CBOR item -1 alone is UTF-8: sniffed as JSON text " "
for _n, (_d, _s) in EDGE.items():
    DOCS[_n] = _d

FEATS = [None, ["fx"], ["fy"], ["fx", "fy"], ["zz", "fx"], ["zz"]]
ROUTES = "jcs"
MAXPOS = 3


def fkey(f):
    return "-" if f is None else ",".join(f)


def materialize(root):
    shutil.rmtree(root, ignore_errors=True)
    os.makedirs(os.path.join(root, "s"))
    os.makedirs(os.path.join(root, "d"))
    for name, text in SCHEMAS.items():
        p = os.path.join(root, "s", name + ".cddl")
        if text == DIR:
            os.makedirs(p)
        elif text is not None:
            open(p, "wb").write(text)
    for name, data in DOCS.items():
        for r in ROUTES:
            for i in range(MAXPOS):
                p = os.path.join(root, "d", "%s.%s%d" % (name, r, i))
                if data == DIR:
                    os.makedirs(p)
                elif data is not None:
                    open(p, "wb").write(data)


# ---------------------------------------------------------------------------
# invocations
# ---------------------------------------------------------------------------

def argv_of(inv):
    """command line of an invocation; `style` drives the spelling (flag order, short flags,
    comma-joined vs repeated flags), which must not matter"""
    rng = random.Random(inv["style"])
    pre = ["--ci"] if inv["ci"] else []
    if inv["cmd"] == "compile":
        return pre + ["compile-cddl", rng.choice(["-c", "--cddl"]), "s/%s.cddl" % inv["schema"]]
    groups = [[rng.choice(["-d", "--cddl"]), "s/%s.cddl" % inv["schema"]]]
    if inv["feats"] is not None:
        flag = rng.choice(["-f", "--features"])
        if len(inv["feats"]) > 1 and rng.random() < 0.3:
            groups.append([x for f in inv["feats"] for x in (flag, f)])
        else:
            groups.append([flag, ",".join(inv["feats"])])
    if inv["hdr"]:
        groups.append(["--csv-header"])
    for r, flag in (("j", ["-j", "--json"]), ("c", ["-c", "--cbor"]), ("s", ["--csv"])):
        files = ["d/%s.%s%d" % (d, r, i) for i, d in enumerate(inv[r])]
        if not files:
            continue
        fl = rng.choice(flag)
        if len(files) > 1 and rng.random() < 0.5:
            groups.append([fl, ",".join(files)])
        elif len(files) > 2 and rng.random() < 0.5:
            groups.append([fl, files[0], fl, ",".join(files[1:])])
        else:
            groups.append([x for f in files for x in (fl, f)])
    if inv["stdin"] is not None:
        groups.append(["--stdin"])
    # the feature group and file groups may come in any order; keep each group's internal order
    rng.shuffle(groups)
    return pre + ["validate"] + [x for g in groups for x in g]


def cmdline(inv):
    s = " ".join(argv_of(inv))
    if inv.get("stdin") is not None and DOCS.get(inv["stdin"]) not in (None, DIR):
        s += " <stdin:%s=%s" % (inv["stdin"], DOCS[inv["stdin"]][:24].hex())
    return s


ANSI = re.compile(r"\x1b\[[0-9;]*m")
RE_OK = re.compile(r'^\[INFO\] Validation of "d/([a-z0-9_]+)\.([jcs])(\d)" is successful$')
RE_FAIL = re.compile(r'^\[ERROR\] Validation of "d/([a-z0-9_]+)\.([jcs])(\d)" failed: ')
RE_MISS = re.compile(r'^\[ERROR\] (File|CBOR binary file|CSV file) "d/([a-z0-9_]+)\.([jcs])(\d)" does not exist$')
MISS_LABEL = {"j": "File", "c": "CBOR binary file", "s": "CSV file"}


def run_cli(cli, root, inv):
    data = b""
    if inv.get("stdin") is not None:
        data = DOCS[inv["stdin"]]
    p = subprocess.run([cli] + argv_of(inv), cwd=root, input=data, stdout=subprocess.PIPE, stderr=subprocess.STDOUT,
                       timeout=120, close_fds=False)
    return p.returncode, p.stdout.decode("utf-8", "replace")


def parse_output(inv, rc, out, info):
    """observed behaviour in the model's canonical form + side observations"""
    lines = [ANSI.sub("", l).rstrip("\r") for l in out.split("\n")]
    reports, schema_ev, notes = [], "-", []
    feats_logged, errline, conformant, root_logged = None, None, False, False
    for l in lines:
        m = RE_OK.match(l)
        if m:
            reports.append("%s%s+" % (m.group(2), m.group(3)))
            if (inv[m.group(2)] + [None] * MAXPOS)[int(m.group(3))] != m.group(1):
                notes.append("report names a path that was not passed in that position: " + l)
            continue
        m = RE_FAIL.match(l)
        if m:
            reports.append("%s%s-" % (m.group(2), m.group(3)))
            if (inv[m.group(2)] + [None] * MAXPOS)[int(m.group(3))] != m.group(1):
                notes.append("report names a path that was not passed in that position: " + l)
            continue
        m = RE_MISS.match(l)
        if m:
            reports.append("%s%s?" % (m.group(3), m.group(4)))
            if MISS_LABEL[m.group(3)] != m.group(1):
                notes.append("missing-file message of another route: " + l)
            continue
        if l == "[INFO] Validation from stdin is successful":
            reports.append("i0+")
        elif l.startswith("[ERROR] Validation from stdin failed: "):
            reports.append("i0-")
        elif l.startswith("[ERROR] CDDL document ") and l.endswith(" does not exist"):
            schema_ev = "m"
        elif l.startswith("[INFO] Root type for validation: "):
            root_logged = True
            # which rule the tool names as the root: its position among the schema's rules
            _, kinds, names = info
            rname = l[len("[INFO] Root type for validation: "):]
            cands = [i for i, n in enumerate(names) if n == rname]
            schema_ev = "r%d" % cands[0] if cands else "r?"
        elif l.startswith("[INFO] enabled features: "):
            feats_logged = l[len("[INFO] enabled features: "):]
        elif l.startswith("[INFO] ") and l.endswith(" is conformant"):
            conformant = True
        elif l.startswith("Error: "):
            errline = l
    if inv["cmd"] == "validate" and errline is not None and not root_logged and schema_ev == "-":
        schema_ev = "e"           # main returned Err before the documents: schema unreadable / no parse / no root
    elif errline is not None and not errline.startswith('Error: "'):
        reports.append("!")       # an io::Error (Debug of std::io::Error), not a message produced by error!
    if inv["cmd"] == "compile":
        canon = "%s X%d" % ("C" if conformant else "-", rc)
    else:
        canon = " ".join([schema_ev] + reports + ["X%d" % rc])
    return {"canon": canon, "feats_logged": feats_logged, "errline": errline, "notes": notes}


# ---------------------------------------------------------------------------
# library verdicts, model line, expectation
# ---------------------------------------------------------------------------

class Lib:
    """verdict table filled through the Rust driver (calls into the real library)"""

    def __init__(self, drv):
        self.drv, self.v, self.s = drv, {}, {}

    def fill(self, invs):
        need_v, need_s = set(), set()
        for inv in invs:
            sch = SCHEMAS[inv["schema"]]
            if sch is None or sch == DIR:
                continue
            need_s.add(inv["schema"])
            if inv["cmd"] != "validate":
                continue
            for d in inv["j"] + inv["c"] + inv["s"] + ([inv["stdin"]] if inv["stdin"] is not None else []):
                if DOCS[d] is not None and DOCS[d] != DIR:
                    need_v.add((inv["schema"], d, fkey(inv["feats"])))
        need_s = sorted(k for k in need_s if k not in self.s)
        need_v = sorted(k for k in need_v if k not in self.v)
        out = common.run_tool(self.drv, ["S\t" + SCHEMAS[k].hex() for k in need_s])
        for k, o in zip(need_s, out):
            self.s[k] = o
        out = common.run_tool(self.drv, ["V\t%s\t%s\t%s" % (SCHEMAS[s].hex(), DOCS[d].hex(), f) for s, d, f in need_v])
        for k, o in zip(need_v, out):
            self.v[k] = o

    def schema_info(self, name):
        """(code for Cli.schema_of_code: 0 parsed, 1 missing, 2 unreadable, 3 no parse; rule kinds; rule names)
        - what the library says about the schema file; whether it has a root is NOT decided here"""
        sch = SCHEMAS[name]
        if sch is None:
            return 1, "-", []
        if sch == DIR:
            return 2, "-", []
        st = self.s[name].split(" ")
        if st[0] == "-":
            return 2, "-", []
        if st[0] != "1":
            return 3, "-", []
        return 0, st[1], ([] if st[2] == "-" else st[2].split(","))

    def root(self, name):
        """index of the first type rule without generic parameters (the validators' root), or None;
        the expectation's own reading of the rule kinds, independent of the Coq model"""
        code, kinds, _ = self.schema_info(name)
        return kinds.find("t") if code == 0 and "t" in kinds else None

    def schema_code(self, name):
        """0 compiles and has a root, 1 missing, 2 unreadable, 3 no parse, 4 parses but has no root type rule"""
        code = self.schema_info(name)[0]
        if code != 0:
            return code
        return 0 if self.root(name) is not None else 4

    def src(self, schema, d, feats, schema_ok):
        """(exists, isfile, utf8, eight verdict characters)"""
        if DOCS[d] is None:
            return "000", "00000000"
        if DOCS[d] == DIR:
            return "100", "00000000"
        if not schema_ok:
            try:
                DOCS[d].decode("utf-8")
                return "111", "00000000"
            except UnicodeDecodeError:
                return "110", "00000000"
        v = self.v[(schema, d, fkey(feats))]
        return "11" + v[8], v[:8]


def model_line(lib, inv):
    if inv["cmd"] == "compile":
        code = {0: 0, 4: 0, 1: 1, 2: 2, 3: 3}[lib.schema_code(inv["schema"])]     # compile-cddl does not ask for a root type
        return "C\t%d\t%d" % (inv["ci"], code)
    sc = lib.schema_code(inv["schema"])
    mcode, kinds, _ = lib.schema_info(inv["schema"])
    def srcs(names):
        if not names:
            return "-"
        return ",".join("%s:%s" % lib.src(inv["schema"], d, inv["feats"], sc == 0) for d in names)
    return "\t".join(["V", "%d" % inv["ci"], "%d" % inv["hdr"],
                      "-" if inv["feats"] is None else str(len(inv["feats"])), str(mcode), kinds,
                      srcs(inv["j"]), srcs(inv["c"]), srcs(inv["s"]),
                      "-" if inv["stdin"] is None else srcs([inv["stdin"]])])


def coq_expr(lib, inv):
    B = lambda c: "true" if c in (True, "1") else "false"
    if inv["cmd"] == "compile":
        code = {0: 0, 4: 0, 1: 1, 2: 2, 3: 3}[lib.schema_code(inv["schema"])]
        return "case_compile %s %d" % (B(inv["ci"]), code)
    sc = lib.schema_code(inv["schema"])
    def ds(d):
        fl, bits = lib.src(inv["schema"], d, inv["feats"], sc == 0)
        return "Build_dsrc %s %s %s [%s]" % (B(fl[0]), B(fl[1]), B(fl[2]), ";".join(B(c) for c in bits))
    def dl(names):
        return "[" + "; ".join(ds(d) for d in names) + "]"
    f = "None" if inv["feats"] is None else "(Some [%s])" % ";".join(str(i + 1) for i in range(len(inv["feats"])))
    si = "None" if inv["stdin"] is None else "(Some (%s))" % ds(inv["stdin"])
    mcode, kinds, _ = lib.schema_info(inv["schema"])
    rules = "[" + ";".join({"t": "0", "g": "1", "G": "2"}[k] for k in kinds if k != "-") + "]"
    return "case_validate %s %s %s %d %s %s %s %s %s" % (B(inv["ci"]), B(inv["hdr"]), f, mcode, rules,
                                                         dl(inv["j"]), dl(inv["c"]), dl(inv["s"]), si)


# positions of the verdicts in the driver's answer
J_F, J_N, C_F, C_N, S_HF, S_NF, S_HN, S_NN = range(8)


def expectation(lib, inv):
    """The property, computed independently of the Coq model: every document is reported
    successful iff the library call of its route with the same features succeeds; processing
    order json, cbor, csv, stdin; --ci stops at the first document that is not successful.
    Returns (canon, slots) where slots lists (slot, route, flags, bits, index of the verdict used)."""
    if inv["cmd"] == "compile":
        sc = lib.schema_code(inv["schema"])
        if sc == 1:
            return "- X%d" % inv["ci"], []
        return ("C X0" if sc in (0, 4) else "- X1"), []
    sc = lib.schema_code(inv["schema"])
    if sc == 1:
        return "m X%d" % inv["ci"], []
    if sc != 0:
        return "e X1", []
    todo = [("j", i, d) for i, d in enumerate(inv["j"])] + [("c", i, d) for i, d in enumerate(inv["c"])] \
        + [("s", i, d) for i, d in enumerate(inv["s"])] + ([("i", 0, inv["stdin"])] if inv["stdin"] is not None else [])
    slots = []
    for r, i, d in todo:
        fl, bits = lib.src(inv["schema"], d, inv["feats"], True)
        if r == "j":
            use = J_F
        elif r == "c":
            use = C_F
        elif r == "s":
            use = S_HF if inv["hdr"] else S_NF
        else:
            use = J_F if fl[2] == "1" else C_F
        slots.append(("%s%d" % (r, i), r, fl, bits, use))
    return render_expect(inv, slots, lib.root(inv["schema"])), slots


def render_expect(inv, slots, root):
    reps, fail = [], False
    for slot, r, fl, bits, use in slots:
        if r != "i" and fl[0] == "0":
            o = "?"
        elif r != "i" and (fl[1] == "0" or (r in "js" and fl[2] == "0")):
            reps.append("!")
            fail = True
            break
        else:
            o = "+" if bits[use] == "1" else "-"
        reps.append(slot + o)
        if o != "+" and inv["ci"]:
            fail = True
            break
    return " ".join(["r%d" % root] + reps + ["X%d" % fail])


def features_dropped(inv, slots, observed):
    """diagnosis only (the case is a VIOLATION either way): slots whose observed report equals the
    verdict of the same library call WITHOUT the features while the verdict with them differs"""
    nofeat = {J_F: J_N, C_F: C_N, S_HF: S_HN, S_NF: S_NN}
    seen = observed.split()
    out = []
    for slot, r, fl, bits, use in slots:
        if inv["feats"] is not None and bits[use] != bits[nofeat[use]] and (slot + ("+" if bits[nofeat[use]] == "1" else "-")) in seen:
            out.append(slot)
    return out


# ---------------------------------------------------------------------------
# generation
# ---------------------------------------------------------------------------

OK_SCHEMAS = ["plain", "feat", "featy", "uint", "any", "csv", "csvh", "csvf", "undef"]
ROOT_LATER = ["gen_first", "group_first", "gens_first", "alt_only", "csvgen", "csvgrp"]      # root is not the first rule
BAD_SCHEMAS = ["bad", "bad2", "noroot", "gen_only", "group_gen", "empty", "nonutf", "dir", "missing"]
# valid / invalid documents of the ROOT_LATER schemas per route (j, c, s); stdin gets the j and c ones
ROOT_DOCS = {
    "gen_first": {"j": ["j_body", "j_bodys"], "c": ["c_body", "c_bodys"], "s": ["s_ok"]},
    "group_first": {"j": ["j_ok", "j_xs", "j_bad"], "c": ["c_ok", "c_bad"], "s": ["s_ok"]},
    "gens_first": {"j": ["j_body", "j_pair", "j_bodys"], "c": ["c_body", "c_pair", "c_bodys"], "s": ["s_ok"]},
    "alt_only": {"j": ["j_ok", "j_arr", "j_v"], "c": ["c_ok", "c_arr", "c_v"], "s": ["s_ok"]},
    "csvgen": {"j": ["j_arr"], "c": ["c_arr"], "s": ["s_ok", "s_bad", "s_q"]},
    "csvgrp": {"j": ["j_arr"], "c": ["c_arr"], "s": ["s_ok", "s_bad"]},
}
GOOD_DOCS = [d for d in BASE_DOCS if d not in ("missing", "dir", "nonutf")]


def mk(cmd="validate", ci=False, hdr=False, feats=None, schema="plain", j=(), c=(), s=(), stdin=None, style=0, cls=""):
    return {"cmd": cmd, "ci": ci, "hdr": hdr, "feats": feats, "schema": schema, "j": list(j), "c": list(c), "s": list(s),
            "stdin": stdin, "style": style, "cls": cls}


def gen_invocations(rng, tier, wide=False):
    invs = []
    full = tier != "quick"
    # (A) single-document sweep: every schema x document x route, configurations sampled
    configs = [(ci, hdr, f) for ci in (False, True) for hdr in (False, True) for f in FEATS]
    for sch in OK_SCHEMAS + ROOT_LATER:
        for d in BASE_DOCS:
            if sch in ROOT_LATER and not (full or wide) and rng.random() < 0.5:
                continue
            # quick: two of the four routes per pair (one for the root-position schemas, which have their own class)
            for r in ("jcsi" if full or wide else rng.sample("jcsi", 1 if sch in ROOT_LATER else 2)):
                if r == "i" and d in ("missing", "dir"):
                    continue
                relevant = rng.sample(configs, 8) if full else rng.sample(configs, 3 if wide else 1)
                for ci, hdr, f in relevant:
                    if hdr and r != "s" and not full:
                        hdr = rng.random() < 0.2
                    kw = {"j": [d]} if r == "j" else {"c": [d]} if r == "c" else {"s": [d]} if r == "s" else {"stdin": d}
                    invs.append(mk(ci=ci, hdr=hdr, feats=f, schema=sch, style=rng.randrange(1 << 30), cls="single", **kw))
    # (B) the configurations that decide the findings and the flags, exhaustively on the sensitive schemas
    for sch, docs in (("feat", ["j_x5", "c_x5", "j_ok", "c_ok", "j_xa", "c_xa"]), ("featy", ["j_2", "c_2", "j_arr", "c_arr", "c_big"]),
                      ("csvf", ["s_ok", "s_bad", "s_numhdr"]), ("csv", ["s_ok", "s_hdr"]), ("csvh", ["s_numhdr", "s_ok"]),
                      ("uint", ["j_2", "c_2", "c_big", "j_v"])):
        for d in docs:
            for ci in (False, True):
                for f in FEATS:
                    for r in ("jcsi" if full else {"j": "ji", "c": "ci", "s": "s"}[d[0]]):
                        for hdr in ((False, True) if r == "s" else (False,)):
                            kw = {"j": [d]} if r == "j" else {"c": [d]} if r == "c" else {"s": [d]} if r == "s" else {"stdin": d}
                            invs.append(mk(ci=ci, hdr=hdr, feats=f, schema=sch, style=rng.randrange(1 << 30), cls="sensitive", **kw))
    # (B2) root position, exhaustive: schemas whose root is not the first rule x their valid and invalid documents
    #      x every route incl. stdin x --ci (the tool must find the root the validators use, and report the verdicts)
    for sch in ROOT_LATER:
        for ci in (False, True):
            for r in "jcs":
                for d in ROOT_DOCS[sch][r]:
                    invs.append(mk(ci=ci, hdr=False, feats=None, schema=sch, style=rng.randrange(1 << 30), cls="root-position", **{r: [d]}))
                    if r != "s":
                        invs.append(mk(ci=ci, feats=None, schema=sch, stdin=d, style=rng.randrange(1 << 30), cls="root-position"))
            # one multi-route invocation per schema: first document of each route
            invs.append(mk(ci=ci, feats=rng.choice(FEATS), schema=sch, j=ROOT_DOCS[sch]["j"][:1], c=ROOT_DOCS[sch]["c"][:1],
                           s=ROOT_DOCS[sch]["s"][:1], stdin=ROOT_DOCS[sch]["j"][0], style=rng.randrange(1 << 30), cls="root-position"))
    # (B3) byte exactness, exhaustive on stdin: every EDGE document x its accepting and its rejecting schema x --stdin
    #      (--ci alternating in quick, both in thorough), and once through --cbor / --json <file> for contrast
    for k, (name, (data, schemas)) in enumerate(sorted(EDGE.items())):
        for n, sch in enumerate(schemas):
            for ci in ((False, True) if full or wide else ((k + n) % 2 == 1,)):
                invs.append(mk(ci=ci, schema=sch, stdin=name, style=rng.randrange(1 << 30), cls="byte-exact"))
        file_route = "j" if name.startswith("w_j") else "c"
        invs.append(mk(ci=rng.random() < 0.5, schema=schemas[0], style=rng.randrange(1 << 30), cls="byte-exact", **{file_route: [name]}))
    # (C) schemas that do not compile / cannot be read / are missing, on every route
    for sch in BAD_SCHEMAS:
        for ci in (False, True):
            for r in "jcsi":
                d = rng.choice(GOOD_DOCS)
                kw = {"j": [d, "missing"]} if r == "j" else {"c": [d]} if r == "c" else {"s": [d]} if r == "s" else {"stdin": d}
                invs.append(mk(ci=ci, feats=rng.choice(FEATS), schema=sch, style=rng.randrange(1 << 30), cls="bad-schema", **kw))
    # (C2) masking, exhaustive: a missing / unreadable / failing document alone, before and after a valid one,
    #      on every file route, with and without --ci
    good = {"j": "j_ok", "c": "c_ok", "s": "s_ok"}
    for r in "jcs":
        for ci in (False, True):
            for badd, sch in [("missing", "any"), ("dir", "any"), ("nonutf", "any"),
                              ({"j": "j_bad", "c": "c_bad", "s": "s_bad"}[r], "csv" if r == "s" else "plain")]:
                if sch == "plain":
                    g = good[r]
                else:
                    g = {"j": "j_2", "c": "c_arr", "s": "s_ok"}[r]
                for files in ([badd], [badd, g], [g, badd], [g, badd, g]):
                    invs.append(mk(ci=ci, schema=sch, style=rng.randrange(1 << 30), cls="masking", **{r: files}))
            # across routes: the failing document on this route, a valid one on each other route
            for r2 in "jcs":
                if r2 != r:
                    invs.append(mk(ci=ci, schema="any", style=rng.randrange(1 << 30), cls="masking",
                                   **{r: ["missing"], r2: [{"j": "j_2", "c": "c_arr", "s": "s_ok"}[r2]]}))
    # (D) compile-cddl on every schema
    for sch in SCHEMAS:
        for ci in (False, True):
            invs.append(mk(cmd="compile", ci=ci, schema=sch, style=rng.randrange(1 << 30), cls="compile"))
    # (E) multi-document invocations: 0-3 files per flag + stdin; mostly processable documents, with
    #     failing / missing / unreadable ones placed early, in the middle and last (masking in both directions)
    n_multi = (1350 if wide else 450) if tier == "quick" else 8000
    for _ in range(n_multi):
        sch = rng.choice((OK_SCHEMAS + ROOT_LATER) if rng.random() < 0.93 else BAD_SCHEMAS)
        def pick():
            x = rng.random()
            if x < 0.08:
                return "missing"
            if x < 0.11:
                return "dir"
            if x < 0.14:
                return "nonutf"
            return rng.choice(GOOD_DOCS)
        counts = [rng.choice([0, 0, 1, 1, 2, 3]) for _ in range(3)]
        stdin = rng.choice(GOOD_DOCS + ["nonutf"]) if rng.random() < 0.35 else None
        if sum(counts) == 0 and stdin is None:
            counts[rng.randrange(3)] = rng.choice([1, 2, 3])
        invs.append(mk(ci=rng.random() < 0.5, hdr=rng.random() < 0.4, feats=rng.choice(FEATS), schema=sch,
                       j=[pick() for _ in range(counts[0])], c=[pick() for _ in range(counts[1])],
                       s=[pick() for _ in range(counts[2])], stdin=stdin, style=rng.randrange(1 << 30), cls="multi"))
    # (F) all-valid multi-document invocations (so that long success runs and exit 0 under --ci occur)
    valid = {"plain": (["j_ok", "j_xs"], ["c_ok"], []), "any": (["j_2", "j_arr", "j_ok"], ["c_2", "c_arr", "c_ok"], ["s_ok", "s_int"]),
             "csv": ([], [], ["s_ok", "s_q"]), "feat": (["j_ok", "j_xa", "j_x5"], ["c_ok", "c_xa", "c_x5"], [])}
    for _ in range(60 if tier == "quick" else 1000):
        sch = rng.choice(sorted(valid))
        js, cs, ss = valid[sch]
        invs.append(mk(ci=rng.random() < 0.7, hdr=False, feats=rng.choice(FEATS), schema=sch,
                       j=[rng.choice(js) for _ in range(rng.randrange(0, 4))] if js else [],
                       c=[rng.choice(cs) for _ in range(rng.randrange(0, 4))] if cs else [],
                       s=[rng.choice(ss) for _ in range(rng.randrange(1, 4))] if ss else [],
                       stdin=rng.choice(js) if js and rng.random() < 0.3 else None, style=rng.randrange(1 << 30), cls="multi-valid"))
    for inv in invs:
        if inv["cmd"] == "validate" and not (inv["j"] or inv["c"] or inv["s"] or inv["stdin"] is not None):
            inv["j"] = ["j_ok"]        # clap requires one target
    return invs


# ---------------------------------------------------------------------------
# corpus: runs first.  Witnesses of the findings repaired by 8c0094b (kf-c18-cbor-features,
# kf-c18-stdin-json-features): schema `feat`, {"n":1,"x":5} is rejected only with --features fx.
# ---------------------------------------------------------------------------

def corpus():
    out = []
    # seeded change C18-4 (stdin bytes trimmed before sniffing / the library call) escaped an earlier version:
    # CBOR [1, -1], [1, 10], [1, "a "], [1, 288] on stdin; the library accepts the untrimmed bytes
    for ci in (True, False):
        for d, sch in (("w_int_20", "pair_ii"), ("w_int_0a", "pair_ii"), ("w_txt_20", "pair_it"), ("w_a2_20", "pair_ii")):
            out.append(mk(ci=ci, schema=sch, stdin=d, style=8, cls="corpus"))
    # a defect seeded into root_type_name_from_cddl_str (looked only at the first type rule) escaped an earlier
    # version of this check: first rule generic, root second, {"body":3} valid
    for ci in (True, False):
        out.append(mk(ci=ci, schema="gen_first", j=["j_body"], style=6, cls="corpus"))
        out.append(mk(ci=ci, schema="gen_first", stdin="j_body", style=7, cls="corpus"))
    for ci in (True, False):
        for f in (["fx"], ["zz", "fx"], None):
            out.append(mk(ci=ci, feats=f, schema="feat", c=["c_x5"], style=1, cls="corpus"))            # cli.rs:230
            out.append(mk(ci=ci, feats=f, schema="feat", stdin="j_x5", style=2, cls="corpus"))          # cli.rs:299
            out.append(mk(ci=ci, feats=f, schema="feat", stdin="c_x5", style=3, cls="corpus"))          # cli.rs:317
            out.append(mk(ci=ci, feats=f, schema="feat", j=["j_x5"], style=4, cls="corpus"))            # cli.rs:193
            out.append(mk(ci=ci, feats=f, schema="csvf", s=["s_bad"], style=5, cls="corpus"))           # cli.rs:266
    return out


# ---------------------------------------------------------------------------
# the check
# ---------------------------------------------------------------------------

def evaluate(cli, lib, orc, root, invs):
    lib.fill(invs)
    with ThreadPoolExecutor(max_workers=common.NPROC) as ex:
        raw = list(ex.map(lambda inv: run_cli(cli, root, inv), invs))
    model = common.run_tool(orc, [model_line(lib, inv) for inv in invs])
    obs = [parse_output(inv, rc, out, lib.schema_info(inv["schema"])) for inv, (rc, out) in zip(invs, raw)]
    return raw, obs, model


def replay_dict(inv, lib, obs, model, expect, raw):
    names = set(inv["j"] + inv["c"] + inv["s"] + ([inv["stdin"]] if inv["stdin"] is not None else []))
    enc = lambda x: None if x is None else (DIR if x == DIR else x.hex())
    return {"invocation": inv, "argv": argv_of(inv), "schema_hex": enc(SCHEMAS[inv["schema"]]),
            "documents_hex": {d: enc(DOCS[d]) for d in sorted(names)},
            "observed": obs, "model": model, "expectation": expect, "output": raw[-1500:]}


def run(tier, seed):
    res = Result(PROP, tier, seed)
    proved = common.prove(res, PROP, PROP_FILE, [EXTRACT])
    cli = common.build_cli()
    drv = common.build_harness("c18")
    orc = common.build_oracle("cli", ["cli_model"])
    rng = random.Random(seed)
    root = os.path.join(SCRATCH, "run-%s-%d-%d" % (tier, seed, os.getpid()))
    materialize(root)
    lib = Lib(drv)
    try:
        for kf in common.known_findings(PROP):          # none expected: both C18 findings are fixed
            res.notes.append("open finding %s is listed but this check has no classifier for it; a recurrence is a VIOLATION" % kf["id"])
        invs = corpus() + gen_invocations(rng, tier, wide=not proved)
        raw, obs, model = evaluate(cli, lib, orc, root, invs)

        hist, outcomes, classes = {}, {}, {}
        distinct, n_feat_logged = set(), 0
        for inv, (rc, out), o, m in zip(invs, raw, obs, model):
            classes[inv["cls"]] = classes.get(inv["cls"], 0) + 1
            exp, slots = expectation(lib, inv)
            routes = "".join(r for r in "jcs" if inv[r]) + ("i" if inv["stdin"] is not None else "")
            if inv["cmd"] == "compile":
                oc = ("exit%d" % rc) + ("/conformant" if o["canon"].startswith("C") else "/not-conformant")
            elif o["canon"][0] in "me":
                oc = ("exit%d" % rc) + "/schema-" + {"m": "missing", "e": "error"}[o["canon"][0]]
            else:
                oc = ("exit%d" % rc) + ("/some-fail" if re.search(r"[-?!]( |$)", o["canon"][2:]) else "/all-ok")
            key = "%s|%s|ci=%d|feats=%s" % (inv["cmd"], routes or "-", inv["ci"], "yes" if inv["feats"] else "no")
            hist.setdefault(key, {})
            hist[key][oc] = hist[key].get(oc, 0) + 1
            outcomes[oc] = outcomes.get(oc, 0) + 1
            if inv["cmd"] == "validate" and lib.schema_code(inv["schema"]) == 0 and any(
                    s[2][0] == "1" or s[1] == "i" for s in slots):
                distinct.add(json.dumps({k: inv[k] for k in ("ci", "hdr", "feats", "schema", "j", "c", "s", "stdin")}, sort_keys=True))
            # (1) model vs binary
            if o["canon"] != m:
                res.violation("cddl %s: observed `%s`, model of cli.rs `%s`" % (cmdline(inv), o["canon"], m),
                              replay_dict(inv, lib, o["canon"], m, exp, out))
                continue
            # (2) side observations that tie clap / logging
            if o["notes"]:
                res.violation("cddl %s: %s" % (cmdline(inv), o["notes"][0]), replay_dict(inv, lib, o["canon"], m, exp, out))
                continue
            if inv["cmd"] == "validate":
                want = None if inv["feats"] is None else "[" + ", ".join('"%s"' % f for f in inv["feats"]) + "]"
                if o["feats_logged"] != want:
                    res.violation("cddl %s: enabled features logged as %s, passed %s" % (cmdline(inv), o["feats_logged"], want),
                                  replay_dict(inv, lib, o["canon"], m, exp, out))
                    continue
                n_feat_logged += want is not None
            if rc not in (0, 1):
                res.violation("cddl %s: exit status %d (clap error or panic)" % (cmdline(inv), rc),
                              replay_dict(inv, lib, o["canon"], m, exp, out))
                continue
            if rc == 1 and o["errline"] is None:
                res.violation("cddl %s: exit status 1 without an `Error:` line" % cmdline(inv),
                              replay_dict(inv, lib, o["canon"], m, exp, out))
                continue
            # (3) the property: expectation with the same features vs binary
            if o["canon"] != exp:
                dropped = features_dropped(inv, slots, o["canon"])
                res.violation("cddl %s: observed `%s`, but the library calls with the same features give `%s`%s" % (
                    cmdline(inv), o["canon"], exp,
                    " (slots %s show the verdict of the call without --features)" % ",".join(dropped) if dropped else ""),
                    replay_dict(inv, lib, o["canon"], m, exp, out))

        # vm_compute slice: guards the extraction step
        sl = rng.sample(invs, min(150, len(invs)))
        vm = common.vm_compute_slice(PROP, "From Coq Require Import List NArith. Import ListNotations. Open Scope N_scope.\n"
                                     "From Cddl Require Import Cli.Cli.", [coq_expr(lib, inv) for inv in sl])
        orc_sl = common.run_tool(orc, [model_line(lib, inv) for inv in sl], shards=1)
        bad = [(model_line(lib, inv), x, y) for inv, x, y in zip(sl, vm, orc_sl) if x != y]
        if bad:
            res.violation("extracted oracle and vm_compute disagree on %s: %s vs %s" % bad[0], {"kind": "extraction", "case": bad[0]}, no_input=True)
        if not proved and not res.violations:
            res.violation(res.proof_broken, {"kind": "proof-obligation", "detail": res.proof_broken}, no_input=True)

        verdict_bits = {}
        for v in lib.v.values():
            for i, c in enumerate(v[:8]):
                verdict_bits.setdefault(i, {"0": 0, "1": 0, "-": 0})[c] += 1
        res.coverage.update({
            "evaluations": len(invs),
            "distinct_nontrivial": len(distinct),
            "rule": "every invocation runs the real binary, the extracted model and the expectation; distinct_nontrivial = distinct "
                    "(schema, flags, document lists) validate invocations whose schema compiles and that name at least one existing document or stdin. "
                    "Classes: corpus = witnesses of the repaired feature-dropping findings on all five call sites; single = every compiling schema x every document x every route (quick: two sampled routes per pair and one sampled configuration; thorough: all routes x 8 of the 24 configurations); "
                    "byte-exact = documents whose first / last byte is 0x09..0x0d or 0x20 (final CBOR integer, last byte of a text / byte string, low byte of a 2/4/8-byte argument, inside an indefinite array, first byte, stray trailing byte, JSON with leading / trailing white space) on --stdin against an accepting and a rejecting schema, and once as a file, exhaustive; root-position = schemas whose root is the 2nd-4th rule (after generic type rules / group rules / defined by /= only) x valid and invalid documents x every route x --ci, exhaustive; sensitive = feature/header/sniffing-deciding schema-document pairs x every route x --ci x every feature list x --csv-header, exhaustive; "
                    "bad-schema = every non-compiling / unreadable / missing schema x --ci x every route; masking = a missing / unreadable / failing document alone, before, after and between valid ones on every file route x --ci, and next to a valid document of another route, exhaustive; compile = compile-cddl on every schema x --ci; "
                    "multi = random 0-3 files per flag + stdin with missing / unreadable / failing documents in random positions; multi-valid = all documents valid",
            "class_histogram": classes,
            "histogram_route_ci_features_outcome": hist,
            "outcome_split": outcomes,
            "library_calls": len(lib.v) * 8, "library_verdict_split_by_call": {
                ["J(F)", "J(None)", "C(F)", "C(None)", "S(hdr,F)", "S(nohdr,F)", "S(hdr,None)", "S(nohdr,None)"][i]: v for i, v in sorted(verdict_bits.items())},
            "corpus": "witnesses of the findings fixed by 8c0094b (--cbor and stdin-JSON with --features) and their sibling routes, %d invocations, run first" % len(corpus()),
            "features_log_line_checked": n_feat_logged,
            "vm_compute_slice": len(sl),
            "exhaustive": True,
            "exhaustive_scope": ["byte-exact: %d edge documents x {accepting, rejecting} schema x --stdin, + one file-route run each" % len(EDGE), "root-position: 6 schemas whose root is not the first rule x valid/invalid documents x {json,cbor,csv,stdin} x --ci", "sensitive: 6 schemas x listed documents x {json,cbor,csv,stdin} x --ci x 6 feature lists x --csv-header (csv)",
                                 "bad-schema: 7 schema defects x --ci x 4 routes", "masking: {missing, directory, non-UTF-8, rejected} x 4 placements x 3 routes x --ci + cross-route pairs", "compile-cddl: %d schema files x --ci" % len(SCHEMAS)],
            "samples": [{"argv": argv_of(inv), "observed": o["canon"], "model": m} for inv, o, m in list(zip(invs, obs, model))[::max(1, len(invs) // 8)][:8]],
        })
        res.assumptions = [
            "whether the schema has a root type rule, and which rule it is, is computed by the model from the rule kinds of the AST returned by cddl_from_str (driver c18 command S); root_type_name_from_cddl_str is NOT consulted by the check, it is part of the tool under check and its answer is observed through the `Root type for validation` line",
            "the library is a parameter of the model (lib : call -> bool); its verdicts are taken from the real crate through harness/src/bin/c18.rs",
            "clap argument parsing, file-system access, the logger (simplelog) and the exit status produced by returning Err from main are exercised on the real binary, not modelled",
            "Path::exists / fs::read_to_string / File::open outcomes enter the model as the flags exists / isfile / utf8 of each document",
        ]
        return res.finish()
    finally:
        shutil.rmtree(root, ignore_errors=True)


def replay(path):
    r = json.load(open(path))["replay"]
    if "invocation" not in r:
        print("nothing to replay:", r)
        return 0
    inv = r["invocation"]
    dec = lambda x: None if x is None else (DIR if x == DIR else bytes.fromhex(x))
    SCHEMAS[inv["schema"]] = dec(r["schema_hex"])
    for d, h in r["documents_hex"].items():
        DOCS[d] = dec(h)
    cli = common.build_cli()
    drv = common.build_harness("c18")
    common.coq_build([EXTRACT])
    orc = common.build_oracle("cli", ["cli_model"])
    root = os.path.join(SCRATCH, "replay-%d" % os.getpid())
    materialize(root)
    try:
        lib = Lib(drv)
        raw, obs, model = evaluate(cli, lib, orc, root, [inv])
        print("argv       : cddl " + cmdline(inv))
        print("output     :\n" + ANSI.sub("", raw[0][1]))
        print("observed   :", obs[0]["canon"])
        print("model      :", model[0])
        print("expectation:", expectation(lib, inv)[0])
        print("vm         :", common.vm_compute_slice(PROP, "From Coq Require Import List NArith. Import ListNotations. Open Scope N_scope.\n"
                                                      "From Cddl Require Import Cli.Cli.", [coq_expr(lib, inv)])[0])
    finally:
        shutil.rmtree(root, ignore_errors=True)
    return 0
