"""Schema / value ASTs of the core CDDL fragment (mirrors coq/theories/Sem/Syntax.v) and their renderings:
CDDL text, JSON text, CBOR bytes, s-expressions for the OCaml oracle, Coq terms for vm_compute slices.

Types   : ('any',) ('major',m) ('simple',n) ('float',) ('tag',n,t) ('lit',lit) ('range',lo,hi,incl)
          ('ref',name) ('or',a,b) ('ctl',op,t,arg) ('arr',g) ('map',g)
Groups  : ('empty',) ('seq',a,b) ('gor',a,b) ('occ',lo,hi|None,g) ('ent',key|None,cut,t) ('gref',name)
Literals: ('int',z) ('flt',q) ('txt',str) ('byt',bytes)
Values  : ('null',) ('undef',) ('bool',b) ('int',z) ('flt',q) ('txt',str) ('byt',bytes) ('arr',[v]) ('map',[(k,v)])
          ('tag',n,v) ('simple',n)
Names   : strings; user rules are numbered in definition order, prelude names have the fixed ids of Syntax.v.
"""
import json as _json

PRELUDE = {"any": 1000, "uint": 1001, "nint": 1002, "int": 1003, "bstr": 1004, "bytes": 1005, "tstr": 1006,
           "text": 1007, "float16": 1008, "float32": 1009, "float64": 1010, "float": 1011, "number": 1012,
           "false": 1013, "true": 1014, "bool": 1015, "nil": 1016, "null": 1017, "undefined": 1018}


class Schema:
    """rules: list of (name, kind 'type'|'group', body); first rule is the root type rule."""

    def __init__(self, rules):
        self.rules = rules
        self.ids = {}
        for i, (n, _, _) in enumerate(rules):
            self.ids.setdefault(n, i)

    def nid(self, n):
        if n in self.ids:
            return self.ids[n]
        return PRELUDE[n]

    def kind(self, n):
        for (m, k, _) in self.rules:
            if m == n:
                return k
        return "type"

    def body(self, n):
        for (m, k, b) in self.rules:
            if m == n:
                return b
        return None

    # ---- CDDL text ----
    def cddl(self):
        out = []
        for (n, k, b) in self.rules:
            if k == "type":
                out.append("%s = %s" % (n, ty_cddl(b)))
            else:
                # `g0 = (g1)` is ambiguous in CDDL (a parenthesised TYPE named g1 or a group with one entry) and the crate
                # reads it as a type rule; a trailing comma makes the group reading the only one
                out.append("%s = (%s%s)" % (n, grp_cddl(b, False), "," if b[0] == "gref" else ""))
        return "\n".join(out) + "\n"

    def sexp(self):
        parts = []
        for (n, k, b) in self.rules:
            if k == "type":
                parts.append("(%d (type %s))" % (self.nid(n), ty_sexp(self, b)))
            else:
                parts.append("(%d (group %s))" % (self.nid(n), grp_sexp(self, b)))
        return "(env %s)" % " ".join(parts)

    def coq(self):
        parts = []
        for (n, k, b) in self.rules:
            if k == "type":
                parts.append("(%d%%N, DType %s)" % (self.nid(n), ty_coq(self, b)))
            else:
                parts.append("(%d%%N, DGroup %s)" % (self.nid(n), grp_coq(self, b)))
        return "[" + "; ".join(parts) + "]"


# ---------------------------------------------------------------------------
# CDDL text
# ---------------------------------------------------------------------------

def txt_cddl(s):
    return _json.dumps(s, ensure_ascii=False)


def lit_cddl(l):
    k = l[0]
    if k == "int":
        return str(l[1])
    if k == "flt":
        return flt_str(l[1])
    if k == "txt":
        return txt_cddl(l[1])
    if k == "byt":
        return "h'%s'" % l[1].hex()
    raise ValueError(l)


def flt_str(q):
    # q/4 as a decimal with a fraction part always present
    sign = "-" if q < 0 else ""
    a = abs(q)
    frac = {0: "0", 1: "25", 2: "5", 3: "75"}[a % 4]
    return "%s%d.%s" % (sign, a // 4, frac)


def is_type2(t):
    return t[0] not in ("or", "ctl", "range")


def t2_cddl(t):
    s = ty_cddl(t)
    return s if is_type2(t) else "(" + s + ")"


def ty_cddl(t):
    k = t[0]
    if k == "paren":
        return "(" + ty_cddl(t[1]) + ")"
    if k == "any":
        return "#"
    if k == "major":
        return "#%d" % t[1]
    if k == "simple":
        return "#7.%d" % t[1]
    if k == "float":
        return "float"
    if k == "tag":
        return "#6.%d(%s)" % (t[1], ty_cddl(t[2]))
    if k == "lit":
        return lit_cddl(t[1])
    if k == "range":
        return "%d%s%d" % (t[1], ".." if t[3] else "...", t[2])
    if k == "ref":
        return t[1]
    if k == "or":
        a = ty_cddl(t[1])
        b = ty_cddl(t[2])
        return "%s / %s" % (a, b)
    if k == "ctl":
        return "%s .%s %s" % (t2_cddl(t[2]), t[1], t2_cddl(t[3]))
    if k == "arr":
        return "[%s]" % grp_cddl(t[1], False)
    if k == "map":
        return "{%s}" % grp_cddl(t[1], True)
    raise ValueError(t)


def occ_cddl(lo, hi):
    if (lo, hi) == (0, 1):
        return "? "
    if (lo, hi) == (0, None):
        return "* "
    if (lo, hi) == (1, None):
        return "+ "
    if (lo, hi) == (1, 1):
        return ""
    return "%d*%s " % (lo, "" if hi is None else str(hi))


def is_bareword(s):
    import re
    return re.fullmatch(r"[A-Za-z_@$][A-Za-z0-9_@$]*(?:[-.][A-Za-z0-9_@$]+)*", s) is not None and s not in PRELUDE


def key_cddl(key, cut):
    if key[0] == "lit" and cut:
        l = key[1]
        if l[0] == "txt" and is_bareword(l[1]):
            return "%s: " % l[1]
        if l[0] in ("txt", "int"):
            return "%s: " % lit_cddl(l)
    return "%s %s=> " % (t2_or_t1_key(key), "^ " if cut else "")


def t2_or_t1_key(key):
    # memberkey = type1 S ["^" S] "=>" : a type1 (no choice) is allowed
    if key[0] == "or":
        return "(" + ty_cddl(key) + ")"
    return ty_cddl(key)


def grp_cddl(g, in_map, top=True):
    k = g[0]
    if k == "empty":
        return "" if top else "()"
    if k == "seq":
        parts = []
        for x in flatten_seq(g):
            parts.append(grp_cddl(x, in_map, False))
        return ", ".join(parts)
    if k == "gor":
        s = "%s // %s" % (grp_cddl(g[1], in_map, True), grp_cddl(g[2], in_map, True))
        return s if top else "(" + s + ")"
    if k == "occ":
        inner = g[3]
        o = occ_cddl(g[1], g[2])
        if inner[0] == "ent":
            return o + ent_cddl(inner, in_map)
        if inner[0] == "gref":
            return o + inner[1]
        return o + "(" + grp_cddl(inner, in_map, True) + ")"
    if k == "ent":
        return ent_cddl(g, in_map)
    if k == "gref":
        return g[1]
    raise ValueError(g)


def ent_cddl(g, in_map):
    _, key, cut, t = g
    if key is None:
        # a bare name could be read as a group name; the generator only emits type rules here
        return ty_cddl(t)
    return key_cddl(key, cut) + ty_cddl(t)


def flatten_seq(g):
    if g[0] == "seq":
        return flatten_seq(g[1]) + flatten_seq(g[2])
    return [g]


# ---------------------------------------------------------------------------
# s-expressions for the oracle
# ---------------------------------------------------------------------------

def z_sexp(z):
    return ("-" if z < 0 else "+") + bin(abs(z))[2:]


def lit_sexp(l):
    k = l[0]
    if k == "int":
        return "(int %s)" % z_sexp(l[1])
    if k == "flt":
        return "(flt %s)" % z_sexp(l[1])
    if k == "txt":
        return "(txt x%s)" % l[1].encode("utf-8", "surrogatepass").hex()
    if k == "byt":
        return "(byt x%s)" % l[1].hex()
    raise ValueError(l)


def ty_sexp(S, t):
    k = t[0]
    if k == "paren":
        return ty_sexp(S, t[1])
    if k == "any":
        return "any"
    if k == "major":
        return "(major %s)" % z_sexp(t[1])
    if k == "simple":
        return "(simple %s)" % z_sexp(t[1])
    if k == "float":
        return "float"
    if k == "tag":
        return "(tag %s %s)" % (z_sexp(t[1]), ty_sexp(S, t[2]))
    if k == "lit":
        return "(lit %s)" % lit_sexp(t[1])
    if k == "range":
        return "(range %s %s %d)" % (z_sexp(t[1]), z_sexp(t[2]), 1 if t[3] else 0)
    if k == "ref":
        return "(ref %s)" % z_sexp(S.nid(t[1]))
    if k == "or":
        return "(or %s %s)" % (ty_sexp(S, t[1]), ty_sexp(S, t[2]))
    if k == "ctl":
        return "(ctl %s %s %s)" % (t[1], ty_sexp(S, t[2]), ty_sexp(S, t[3]))
    if k == "arr":
        return "(arr %s)" % grp_sexp(S, t[1])
    if k == "map":
        return "(map %s)" % grp_sexp(S, t[1])
    raise ValueError(t)


def grp_sexp(S, g):
    k = g[0]
    if k == "empty":
        return "empty"
    if k == "seq":
        return "(seq %s %s)" % (grp_sexp(S, g[1]), grp_sexp(S, g[2]))
    if k == "gor":
        return "(gor %s %s)" % (grp_sexp(S, g[1]), grp_sexp(S, g[2]))
    if k == "occ":
        return "(occ %s %s %s)" % (z_sexp(g[1]), "inf" if g[2] is None else z_sexp(g[2]), grp_sexp(S, g[3]))
    if k == "ent":
        return "(ent %s %d %s)" % ("nokey" if g[1] is None else ty_sexp(S, g[1]), 1 if g[2] else 0, ty_sexp(S, g[3]))
    if k == "gref":
        return "(gref %s)" % z_sexp(S.nid(g[1]))
    raise ValueError(g)


def val_sexp(v):
    k = v[0]
    if k in ("null", "undef"):
        return k
    if k == "bool":
        return "true" if v[1] else "false"
    if k in ("int", "flt"):
        return "(%s %s)" % (k, z_sexp(v[1]))
    if k == "txt":
        return "(txt x%s)" % v[1].encode("utf-8", "surrogatepass").hex()
    if k == "byt":
        return "(byt x%s)" % v[1].hex()
    if k == "arr":
        return "(arr%s)" % "".join(" " + val_sexp(x) for x in v[1])
    if k == "map":
        return "(map%s)" % "".join(" %s %s" % (val_sexp(a), val_sexp(b)) for a, b in v[1])
    if k == "tag":
        return "(tag %s %s)" % (z_sexp(v[1]), val_sexp(v[2]))
    if k == "simple":
        return "(simple %s)" % z_sexp(v[1])
    raise ValueError(v)


# ---------------------------------------------------------------------------
# Coq terms
# ---------------------------------------------------------------------------

def bytes_coq(b):
    return "[" + "; ".join("%d%%N" % x for x in b) + "]"


def lit_coq(l):
    k = l[0]
    if k == "int":
        return "(LInt (%d)%%Z)" % l[1]
    if k == "flt":
        return "(LFloat (%d)%%Z)" % l[1]
    if k == "txt":
        return "(LText %s)" % bytes_coq(l[1].encode("utf-8", "surrogatepass"))
    return "(LBytes %s)" % bytes_coq(l[1])


def ty_coq(S, t):
    k = t[0]
    if k == "paren":
        return ty_coq(S, t[1])
    if k == "any":
        return "TAny"
    if k == "major":
        return "(TMajor %d%%N)" % t[1]
    if k == "simple":
        return "(TSimple %d%%N)" % t[1]
    if k == "float":
        return "TFloat"
    if k == "tag":
        return "(TTag %d%%N %s)" % (t[1], ty_coq(S, t[2]))
    if k == "lit":
        return "(TLit %s)" % lit_coq(t[1])
    if k == "range":
        return "(TRange (%d)%%Z (%d)%%Z %s)" % (t[1], t[2], "true" if t[3] else "false")
    if k == "ref":
        return "(TRef %d%%N)" % S.nid(t[1])
    if k == "or":
        return "(TOr %s %s)" % (ty_coq(S, t[1]), ty_coq(S, t[2]))
    if k == "ctl":
        c = {"size": "CSize", "lt": "CLt", "le": "CLe", "gt": "CGt", "ge": "CGe", "eq": "CEq", "ne": "CNe", "and": "CAnd", "within": "CWithin"}[t[1]]
        return "(TCtl %s %s %s)" % (c, ty_coq(S, t[2]), ty_coq(S, t[3]))
    if k == "arr":
        return "(TArr %s)" % grp_coq(S, t[1])
    if k == "map":
        return "(TMap %s)" % grp_coq(S, t[1])
    raise ValueError(t)


def grp_coq(S, g):
    k = g[0]
    if k == "empty":
        return "GEmpty"
    if k == "seq":
        return "(GSeq %s %s)" % (grp_coq(S, g[1]), grp_coq(S, g[2]))
    if k == "gor":
        return "(GOr %s %s)" % (grp_coq(S, g[1]), grp_coq(S, g[2]))
    if k == "occ":
        return "(GOcc %d%%N %s %s)" % (g[1], "None" if g[2] is None else "(Some %d%%N)" % g[2], grp_coq(S, g[3]))
    if k == "ent":
        return "(GEnt %s %s %s)" % ("None" if g[1] is None else "(Some %s)" % ty_coq(S, g[1]), "true" if g[2] else "false", ty_coq(S, g[3]))
    if k == "gref":
        return "(GRef %d%%N)" % S.nid(g[1])
    raise ValueError(g)


def val_coq(v):
    k = v[0]
    if k == "null":
        return "VNull"
    if k == "undef":
        return "VUndef"
    if k == "bool":
        return "(VBool %s)" % ("true" if v[1] else "false")
    if k == "int":
        return "(VInt (%d)%%Z)" % v[1]
    if k == "flt":
        return "(VFloat (%d)%%Z)" % v[1]
    if k == "txt":
        return "(VText %s)" % bytes_coq(v[1].encode("utf-8", "surrogatepass"))
    if k == "byt":
        return "(VBytes %s)" % bytes_coq(v[1])
    if k == "arr":
        return "(VArr [%s])" % "; ".join(val_coq(x) for x in v[1])
    if k == "map":
        return "(VMap [%s])" % "; ".join("(%s, %s)" % (val_coq(a), val_coq(b)) for a, b in v[1])
    if k == "tag":
        return "(VTag %d%%N %s)" % (v[1], val_coq(v[2]))
    if k == "simple":
        return "(VSimple %d%%N)" % v[1]
    raise ValueError(v)


# ---------------------------------------------------------------------------
# JSON text and CBOR bytes
# ---------------------------------------------------------------------------

def val_json(v):
    k = v[0]
    if k == "null":
        return "null"
    if k == "bool":
        return "true" if v[1] else "false"
    if k == "int":
        return str(v[1])
    if k == "flt":
        return flt_str(v[1])
    if k == "txt":
        return _json.dumps(v[1], ensure_ascii=False)
    if k == "arr":
        return "[" + ",".join(val_json(x) for x in v[1]) + "]"
    if k == "map":
        return "{" + ",".join("%s:%s" % (val_json(a), val_json(b)) for a, b in v[1]) + "}"
    raise ValueError("not a JSON value: %r" % (v,))


def is_json_value(v):
    k = v[0]
    if k in ("null", "bool", "txt"):
        return True
    if k == "int":
        return -(1 << 63) <= v[1] < (1 << 64)
    if k == "flt":
        return v[1] % 4 != 0
    if k == "arr":
        return all(is_json_value(x) for x in v[1])
    if k == "map":
        keys = [a for a, _ in v[1]]
        return all(a[0] == "txt" for a in keys) and len(set(a[1] for a in keys)) == len(keys) and all(is_json_value(b) for _, b in v[1])
    return False


def is_cbor_value(v):
    k = v[0]
    if k == "int":
        return -(1 << 64) <= v[1] < (1 << 64)
    if k == "arr":
        return all(is_cbor_value(x) for x in v[1])
    if k == "map":
        return all(is_cbor_value(a) and is_cbor_value(b) for a, b in v[1])
    if k == "tag":
        return is_cbor_value(v[2])
    return True


def cbor_head(rng, major, n):
    widths = [w for w, lim in ((0, 24), (1, 1 << 8), (2, 1 << 16), (4, 1 << 32), (8, 1 << 64)) if n < lim]
    w = widths[0] if (rng is None or rng.random() < 0.6) else rng.choice(widths)
    if w == 0:
        return bytes([major << 5 | n])
    return bytes([major << 5 | {1: 24, 2: 25, 4: 26, 8: 27}[w]]) + n.to_bytes(w, "big")


def f16_bits(q):
    import struct
    return struct.pack(">e", q / 4.0)


def val_cbor(v, rng=None):
    """one CBOR encoding of the value; with rng: random head widths, definite/indefinite, float widths, chunkings"""
    import struct
    k = v[0]
    if k == "null":
        return b"\xf6"
    if k == "undef":
        return b"\xf7"
    if k == "bool":
        return b"\xf5" if v[1] else b"\xf4"
    if k == "int":
        return cbor_head(rng, 0, v[1]) if v[1] >= 0 else cbor_head(rng, 1, -1 - v[1])
    if k == "flt":
        x = v[1] / 4.0
        w = 8 if rng is None else rng.choice([2, 4, 8])
        if w == 2:
            try:
                b = struct.pack(">e", x)
                if struct.unpack(">e", b)[0] == x:
                    return b"\xf9" + b
            except (OverflowError, struct.error):
                pass
            w = 4
        if w == 4:
            b = struct.pack(">f", x)
            if struct.unpack(">f", b)[0] == x:
                return b"\xfa" + b
        return b"\xfb" + struct.pack(">d", x)
    if k in ("txt", "byt"):
        major = 3 if k == "txt" else 2
        data = v[1].encode("utf-8") if k == "txt" else v[1]
        if rng is None or rng.random() < 0.75:
            return cbor_head(rng, major, len(data)) + data
        # indefinite: split on character boundaries for text
        units = [c.encode("utf-8") for c in v[1]] if k == "txt" else [bytes([b]) for b in data]
        out = bytes([major << 5 | 31])
        i = 0
        while i < len(units):
            j = min(len(units), i + rng.randrange(1, 4))
            chunk = b"".join(units[i:j])
            out += cbor_head(rng, major, len(chunk)) + chunk
            i = j
        return out + b"\xff"
    if k == "arr":
        body = b"".join(val_cbor(x, rng) for x in v[1])
        if rng is None or rng.random() < 0.7:
            return cbor_head(rng, 4, len(v[1])) + body
        return b"\x9f" + body + b"\xff"
    if k == "map":
        body = b"".join(val_cbor(a, rng) + val_cbor(b, rng) for a, b in v[1])
        if rng is None or rng.random() < 0.7:
            return cbor_head(rng, 5, len(v[1])) + body
        return b"\xbf" + body + b"\xff"
    if k == "tag":
        return cbor_head(rng, 6, v[1]) + val_cbor(v[2], rng)
    if k == "simple":
        return bytes([0xe0 | v[1]]) if v[1] < 24 else bytes([0xf8, v[1]])
    raise ValueError(v)
