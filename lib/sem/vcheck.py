"""Shared body of the validator checks C01 (JSON) and C02 (CBOR): differential run of the real validators
against the RFC 8610 semantics decided by the extracted vmodel (Sem/Validator.v), with the known findings
classified by lib/sem/zones.py."""
import itertools, json, random
from .. import common
from ..common import Result
from . import ast, gen, runner, zones

EXTRACT = ["theories/Extract/ExtractSem.vo"]


def witness_cases(kf):
    """known-finding witness -> list of (cddl text, doc, expected spec verdict)"""
    return kf["witness"]["cases"]


def replay_fixed(res, prop, mode, drv):
    """witnesses of repaired findings run first: a recurrence is a violation"""
    import os
    path = os.path.join(common.VERIF, "findings.d", prop + ".json")
    for fw in json.load(open(path)).get("fixed_witnesses", []):
        cases = fw["cases"]
        if mode == "json":
            out = runner.impl_json_text(drv, [(c["schema"], c["doc"]) for c in cases])
        else:
            out = runner.impl_cbor_bytes(drv, [(c["schema"], bytes.fromhex(c["doc"])) for c in cases])
        for c, a in zip(cases, out):
            if runner.verdict_of(a) != c["spec"]:
                res.violation("repaired finding %s is back: %s validation of %s against %s gives %s, specified %s" % (fw["id"], mode, c["doc"], c["schema"].strip(), a[:100], c["spec"]),
                              {"mode": mode, "schema": c["schema"], "doc": c["doc"], "doc_sexp": "", "schema_sexp": "", "impl": a, "model": c["spec"]})


def replay_known(res, prop, mode, drv):
    for kf in common.known_findings(prop):
        still = 0
        cases = witness_cases(kf)
        if mode == "json":
            out = runner.impl_json_text(drv, [(c["schema"], c["doc"]) for c in cases])
        else:
            out = runner.impl_cbor_bytes(drv, [(c["schema"], bytes.fromhex(c["doc"])) for c in cases])
        for c, a in zip(cases, out):
            if runner.verdict_of(a) != c["spec"]:
                still += 1
        if still:
            res.known(kf)
        else:
            res.notes.append("finding %s apparently repaired: all %d witnesses now give the specified verdict" % (kf["id"], len(cases)))


ATOMS_T = [("ref", "uint"), ("ref", "tstr"), ("ref", "bool"), ("ref", "nil"), ("lit", ("int", 1)), ("lit", ("txt", "a")),
           ("range", 0, 2, True), ("or", ("ref", "uint"), ("ref", "tstr")), ("ref", "int"), ("ref", "any")]
ATOMS_V = [("int", 0), ("int", 1), ("int", 3), ("txt", "a"), ("bool", True), ("null",), ("int", -1)]


def small_scope(seed, n_schemas):
    """exhaustive small scope: array schemas of up to 2 entries with every occurrence form, inline groups and '//',
    x all arrays of length <= 3 over the atom values (plus the atoms themselves)."""
    occs = [None, (0, 1), (0, None), (1, None), (2, 3), (0, 2)]

    def ent(t, o):
        e = ("ent", None, False, t)
        return e if o is None else ("occ", o[0], o[1], e)
    schemas = []
    for t in ATOMS_T[:6]:
        for o in occs:
            schemas.append(("arr", ent(t, o)))
    for (t1, t2) in itertools.product(ATOMS_T[:5], repeat=2):
        for (o1, o2) in itertools.product(occs[:4], repeat=2):
            schemas.append(("arr", ("seq", ent(t1, o1), ent(t2, o2))))
    for (t1, t2) in itertools.product(ATOMS_T[:4], repeat=2):
        schemas.append(("arr", ("gor", ent(t1, None), ent(t2, (0, None)))))
        schemas.append(("arr", ("occ", 0, None, ("seq", ent(t1, None), ent(t2, None)))))
        schemas.append(("arr", ("seq", ("occ", 0, 1, ("seq", ent(t1, None), ent(t2, None))), ent(t1, None))))
        schemas.append(("arr", ("seq", ("gor", ent(t1, None), ent(t2, None)), ent(t2, (0, 1)))))
    for t in ATOMS_T:
        schemas.append(t)
    rng = random.Random(seed)
    if n_schemas is not None and n_schemas < len(schemas):
        schemas = rng.sample(schemas, n_schemas)
    docs = list(ATOMS_V)
    for n in range(0, 4):
        for tup in itertools.product(ATOMS_V[:6], repeat=n):
            docs.append(("arr", list(tup)))
    pairs = []
    for t in schemas:
        S = ast.Schema([("r0", "type", t)])
        for d in docs:
            pairs.append((S, d))
    return pairs, len(schemas), len(docs)


def cut_family(cbor):
    """every run: an OPTIONAL member with a cut (':' or '^ =>') whose value does not match, followed by a table that would
    take the pair (RFC 8610 3.5.4: the cut forbids that); literal keys of every kind (seeded C02-5)"""
    def seq(items):
        g = items[-1]
        for it in reversed(items[:-1]):
            g = ("seq", it, g)
        return g
    keys = [(("txt", "k"), "tstr")] + ([(("int", 1), "uint"), (("int", -1), "int"), (("byt", b"\x00"), "bstr")] if cbor else [])
    vals = [("int", 1), ("txt", "x"), ("bool", True), ("null",)]
    out = []
    for key, dom in keys:
        for vt in ("int", "tstr", "bool"):
            for occ in ((0, 1), None):
                for wocc in ((0, None), (1, None)):
                    e = ("ent", ("lit", key), True, ("ref", vt))
                    m = ("occ", occ[0], occ[1], e) if occ else e
                    w = ("occ", wocc[0], wocc[1], ("ent", ("ref", dom), False, ("ref", "any")))
                    S = ast.Schema([("r0", "type", ("map", seq([m, w])))])
                    other = {"tstr": ("txt", "zz"), "uint": ("int", 7), "int": ("int", 7), "bstr": ("byt", b"\x07")}[dom]
                    for v in vals:
                        out.append((S, ("map", [(key, v)])))
                        out.append((S, ("map", [(key, v), (other, ("int", 0))])))
                        out.append((S, ("map", [(other, ("int", 0)), (key, v)])))
                    out.append((S, ("map", [])))
                    out.append((S, ("map", [(other, ("int", 0))])))
    return out


def gen_pairs(rng, mode, n_schemas, extra_opts=None):
    cbor = mode == "cbor"
    pairs, classes, stats = [], [], {}
    for i in range(n_schemas):
        clean = rng.random() < 0.85
        o = gen.Opts(cbor=cbor, clean_maps=clean, depth=rng.choice([1, 2, 2, 3]), **(extra_opts or {}))
        sg = gen.SchemaGen(rng, o)
        S = sg.schema()
        for k, c in sg.stats.items():
            stats[k] = stats.get(k, 0) + c
        inh = gen.Inhabit(rng, S, cbor)
        root = S.rules[0][2]
        first = None
        for j in range(9):
            if j == 8:
                # a map inhabitant reduced to its first k entries (keys of later members absent: nothing left for a table to claim)
                if first is None or first[0] != "map" or len(first[1]) < 2:
                    break
                v = ("map", first[1][:rng.randrange(0, len(first[1]))])
                if (not cbor and not ast.is_json_value(v)) or (cbor and not ast.is_cbor_value(v)):
                    continue
                pairs.append((S, v))
                classes.append("near-miss-prefix")
                continue
            if j >= 4:
                # targeted near-misses: the empty container, a single deletion from the first inhabitant, a value of another
                # class at one position (the key kept), one entry / element added
                if first is None or first[0] not in ("map", "arr") or not first[1]:
                    break
                if j == 4:
                    v = (first[0], [])
                elif j == 5:
                    k = rng.randrange(len(first[1]))
                    v = (first[0], first[1][:k] + first[1][k + 1:])
                elif j == 6:
                    k = rng.randrange(len(first[1]))
                    l = list(first[1])
                    if first[0] == "map":
                        nv = gen.rand_scalar(rng, cbor)
                        if nv == l[k][1]:
                            continue
                        l[k] = (l[k][0], nv)
                    else:
                        l[k] = gen.rand_scalar(rng, cbor)
                    v = (first[0], l)
                else:
                    l = list(first[1])
                    if first[0] == "map":
                        nk = rng.choice([("txt", rng.choice(gen.KEYS + ["zz"]))] + ([("int", rng.choice([1, 2, -1])), ("flt", rng.choice([6, 10]))] if cbor else []))
                        if any(a == nk for a, _ in l):
                            continue
                        l.insert(rng.randrange(len(l) + 1), (nk, gen.rand_scalar(rng, cbor)))
                    else:
                        l.insert(rng.randrange(len(l) + 1), gen.rand_scalar(rng, cbor))
                    v = (first[0], l)
                if (not cbor and not ast.is_json_value(v)) or (cbor and not ast.is_cbor_value(v)):
                    continue
                pairs.append((S, v))
                classes.append({4: "near-miss-empty", 5: "near-miss-deletion", 6: "near-miss-value", 7: "near-miss-addition"}[j])
                continue
            v = inh.ty(root)
            if first is None:
                first = v
            c = rng.random()
            if c < 0.4:
                cls = "inhabitant"
            elif c < 0.85:
                v = gen.mutate(rng, v, cbor)
                cls = "near-miss"
            else:
                v = gen.rand_value(rng, cbor)
                cls = "unrelated"
            if not cbor and not ast.is_json_value(v):
                continue
            if cbor and not ast.is_cbor_value(v):
                continue
            if gen.value_size(v) > 40:
                continue
            pairs.append((S, v))
            classes.append(cls)
    return pairs, classes, stats


def run(prop, prop_file, mode, tier, seed):
    import time
    res = Result(prop, tier, seed)
    phases = {}
    t0 = time.time()
    proved = common.prove(res, prop, prop_file, EXTRACT)
    phases["coq_build_and_audit"] = round(time.time() - t0, 1); t0 = time.time()
    drv = common.build_harness("c01")
    orc = common.build_oracle("sem", ["sem_model"])
    phases["cargo_and_oracle_build"] = round(time.time() - t0, 1); t0 = time.time()
    rng = random.Random(seed)
    cbor = mode == "cbor"
    replay_fixed(res, prop, mode, drv)
    replay_known(res, prop, mode, drv)
    n_schemas = (30000 if tier == "quick" else 150000) * (2 if not proved else 1)
    pairs, classes, stats = gen_pairs(rng, mode, n_schemas)
    sp, n_ss, n_sd = small_scope(seed, 300 if tier == "quick" else None)
    if cbor:
        sp = [(S, v) for S, v in sp]
    n_gen = len(pairs)
    pairs += sp
    classes += ["small-scope"] * len(sp)
    cf = cut_family(cbor)
    pairs += cf
    classes += ["cut-family"] * len(cf)
    phases["generate"] = round(time.time() - t0, 1); t0 = time.time()
    if cbor:
        impl = runner.impl_cbor(drv, pairs, rng)
        impl2 = runner.impl_cbor(drv, pairs[:n_gen], rng)        # a second random encoding of every generated document
        model = runner.model(orc, pairs, False)
        model_alt = model
    else:
        impl = runner.impl_json(drv, pairs)
        impl2 = None
        model = runner.model(orc, pairs, False)
        model_alt = runner.model(orc, pairs, True)
    phases["run_impl_and_model"] = round(time.time() - t0, 1); t0 = time.time()
    large_n = 0
    if cbor:
        # containers beyond the decoder's pre-allocation size, definite vs indefinite encoding of the same item:
        # the verdict must not depend on the encoding and must be the evident one
        big = []
        for n in (4097, 5000):
            elems = b"\x00" * n
            for body, tail, want in ((elems, b"", ("T", "F")), (elems, b"\x61a", ("F", "T"))):
                cnt = n + (1 if tail else 0)
                d_def = b"\x99" + cnt.to_bytes(2, "big") + body + tail
                d_ind = b"\x9f" + body + tail + b"\xff"
                for sch, w in (("r0 = [* uint]\n", want[0]), ("r0 = [* uint, tstr]\n", want[1])):
                    big.append((sch, d_def, d_ind, w))
            pairs_b = b"\x00\x01" * n
            big.append(("r0 = {* uint => uint}\n", b"\xb9" + n.to_bytes(2, "big") + pairs_b, b"\xbf" + pairs_b + b"\xff", None))
        outs = runner.impl_cbor_bytes(drv, [(b[0], b[1]) for b in big] + [(b[0], b[2]) for b in big])
        for i, b in enumerate(big):
            a1, a2 = outs[i], outs[len(big) + i]
            large_n += 2
            if runner.verdict_of(a1) != runner.verdict_of(a2) or (b[3] is not None and runner.verdict_of(a1) != b[3]):
                res.violation("cbor validation of a %d-byte container against %s: definite encoding %s, indefinite encoding %s, expected %s" % (len(b[1]), b[0].strip(), a1[:80], a2[:80], b[3]),
                              {"mode": "cbor", "schema": b[0], "doc": b[1].hex(), "doc_indefinite": b[2].hex(), "doc_sexp": "(large)", "schema_sexp": "", "impl": a1, "model": b[3]})
    hist, split, skipped = {}, {"T": 0, "F": 0}, {"int-float-undecided": 0, "model-undecided": 0, "schema-rejected": 0}
    known_hits, distinct = {}, set()
    kf_by_id = {k["id"]: k for k in common.known_findings(prop)}
    nviol = 0
    for idx, ((S, v), cls, a, m, m2) in enumerate(zip(pairs, classes, impl, model, model_alt)):
        hist[cls] = hist.get(cls, 0) + 1
        va = runner.verdict_of(a)
        if m != m2:
            skipped["int-float-undecided"] += 1
            continue
        if m not in ("T", "F"):
            skipped["model-undecided"] += 1
            continue
        if va == "E schema":
            skipped["schema-rejected"] += 1
            if skipped["schema-rejected"] <= 3:
                res.notes.append("generated schema rejected by the parser: %s -> %s" % (S.cddl().strip().replace("\n", " ;; "), a[:120]))
            continue
        split[m] += 1
        if gen.value_size(v) > 1 or len(S.rules) > 1:
            distinct.add((S.cddl(), ast.val_sexp(v)))
        bad = None
        if va != m and zones.eqne_number_class_grey(S, v):
            skipped["eq-ne-number-class-undecided"] = skipped.get("eq-ne-number-class-undecided", 0) + 1
            continue
        if va != m:
            bad = "verdict: implementation %s, RFC 8610 semantics (vmodel) %s" % (a[:160], m)
        elif cbor and idx < n_gen and runner.verdict_of(impl2[idx]) != va:
            bad = "verdict depends on the CBOR encoding: %s vs %s" % (a[:80], impl2[idx][:80])
        if bad:
            z = zones.zones(S, v, mode) & set(kf_by_id)
            if z:
                kid = sorted(z)[0]
                known_hits[kid] = known_hits.get(kid, 0) + 1
                res.known(kf_by_id[kid])
            else:
                nviol += 1
                if nviol <= 20:
                    doc = ast.val_json(v) if not cbor else ast.val_cbor(v).hex()
                    res.violation("%s validation of %s against\n%s%s" % (mode, doc, S.cddl(), bad),
                                  {"mode": mode, "schema": S.cddl(), "doc": doc, "doc_sexp": ast.val_sexp(v), "schema_sexp": S.sexp(), "impl": a, "model": m})
    total_cmp = split["T"] + split["F"]
    if total_cmp and not (0.15 <= split["T"] / total_cmp <= 0.85):
        res.notes.append("verdict split outside 15-85%%: %r" % split)
    if skipped["schema-rejected"] > 0.02 * len(pairs):
        res.violation("generator degenerate: %d generated schemas rejected by the parser" % skipped["schema-rejected"], {"kind": "generator"}, no_input=True)
    phases["compare"] = round(time.time() - t0, 1); t0 = time.time()
    # vm_compute slice guards the extraction
    sl_idx = rng.sample(range(len(pairs)), 100)
    sl = [pairs[i] for i in sl_idx if gen.value_size(pairs[i][1]) <= 12][:80]
    vm = common.vm_compute_slice(prop, "From Cddl Require Import Sem.Syntax Sem.Validator.\nOpen Scope Z_scope.",
                                 ["verdict 400 %s %s %s" % ("false", S.coq(), ast.val_coq(v)) for S, v in sl])
    orc_sl = runner.model(orc, sl, False)
    vm_bad = [(S.cddl(), ast.val_sexp(v), x, y) for (S, v), x, y in zip(sl, vm, orc_sl) if x != y and x != "?"]
    if vm_bad:
        res.violation("extracted oracle and vm_compute disagree: %r" % (vm_bad[0],), {"kind": "extraction", "case": vm_bad[0]}, no_input=True)
    phases["vm_compute_slice"] = round(time.time() - t0, 1)
    res.coverage["phase_seconds"] = phases
    if not proved and not res.violations:
        res.violation(res.proof_broken, {"kind": "proof-obligation", "detail": res.proof_broken}, no_input=True)
    samples = []
    for (S, v), a, m in list(zip(pairs, impl, model))[:5]:
        samples.append({"schema": S.cddl(), "doc": ast.val_json(v) if not cbor else ast.val_cbor(v).hex(), "impl": a[:60], "model": m})
    res.coverage.update({
        "evaluations": len(pairs) + (n_gen if cbor else 0) + large_n,
        "distinct_nontrivial": len(distinct),
        "rule": "generated (schema, document) pairs: schemas of the core fragment (85%% in the shape both validators handle, 15%% unrestricted), "
                "documents valid by construction / near-miss mutants / unrelated values; plus the exhaustive small scope "
                "(%d array/scalar schemas x %d documents: all arrays of length <= 3 over 6 atoms); distinct_nontrivial = distinct pairs with a composite document or more than one rule" % (n_ss, n_sd),
        "exhaustive": True,
        "exhaustive_scope": "small-scope schemas (%d%s) x %d documents" % (n_ss, "" if tier != "quick" else " sampled by seed from the full list", n_sd),
        "class_histogram": hist, "verdict_split": split, "skipped": skipped, "construct_histogram": stats,
        "known_finding_hits": known_hits, "vm_compute_slice": len(sl), "samples": samples,
    })
    res.assumptions = ["Sem.v transcribes RFC 8610 (sections cited beside each clause); the decider vmodel is proven sound for it (Props)",
                       "JSON numbers without a fraction are integer and float alike (cases where this matters are skipped, counted under skipped)"]
    return res.finish()


def replay(prop, mode, path):
    r = json.load(open(path))["replay"]
    drv = common.build_harness("c01")
    common.coq_build(EXTRACT)
    orc = common.build_oracle("sem", ["sem_model"])
    if mode == "json":
        print("impl :", runner.impl_json_text(drv, [(r["schema"], r["doc"])])[0])
    else:
        print("impl :", runner.impl_cbor_bytes(drv, [(r["schema"], bytes.fromhex(r["doc"]))])[0])
    print("model:", common.run_tool(orc, ["V\t0\t%s\t%s" % (r["schema_sexp"], r["doc_sexp"])])[0])
    return 0
