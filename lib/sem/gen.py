"""Structure-directed generators for the validator properties (C01, C02, C04, C08, C09, C10):
schemas of the core fragment, documents valid by construction, near-miss mutants, unrelated values."""
from .ast import Schema, PRELUDE

TEXTS = ["", "a", "b", "ab", "abc", "x y", "é", "€u", "k1", "zz"]
KEYS = ["a", "b", "c", "d", "k1", "x-y"]


class Opts:
    def __init__(self, cbor=False, andwithin=False, maps=True, arrays=True, depth=3, floats=True, ctl=True, ranges=True,
                 clean_maps=False, map_gor=True, map_gref=True, arrow_keys=True):
        # clean_maps: literal-keyed members followed by at most one wildcard member (no '//')
        self.clean_maps, self.map_gor, self.map_gref, self.arrow_keys = clean_maps, map_gor, map_gref, arrow_keys
        self.cbor, self.andwithin, self.maps, self.arrays, self.depth, self.floats = cbor, andwithin, maps, arrays, depth, floats
        self.ctl, self.ranges = ctl, ranges


def small_int(rng):
    if rng.random() < 0.06:
        # the edges of the 64-bit ranges (serde_json keeps integers above i64::MAX as u64; seeded C04-6, C09-5)
        return rng.choice([(1 << 63) - 1, 1 << 63, (1 << 64) - 1, -(1 << 63), (1 << 63) + 1, 1 << 32])
    return rng.choice([0, 1, 2, 3, 5, 7, 10, 23, 24, 255, 256, -1, -2, -5, -24, -25, 1000, 65535, 65536])


def nonint_q(rng):
    return rng.choice([1, 2, 3, 5, 6, 7, 9, 10, 11, -1, -2, -3, -5, -6, 41, 42, 43, 1001, -1001])


def gen_lit(rng, o, kinds=None):
    k = rng.choice(kinds or (["int", "int", "txt", "txt"] + (["flt"] if o.floats else []) + (["byt"] if o.cbor else [])))
    if k == "int":
        return ("int", small_int(rng))
    if k == "txt":
        return ("txt", rng.choice(TEXTS))
    if k == "flt":
        return ("flt", nonint_q(rng))
    if rng.random() < 0.5:
        return ("byt", rng.choice(TEXTS).encode("utf-8"))          # also the bytes of a text the generators use
    return ("byt", bytes(rng.randrange(256) for _ in range(rng.choice([0, 1, 2, 4]))))


class SchemaGen:
    def __init__(self, rng, o):
        self.rng, self.o = rng, o
        self.stats = {}

    def note(self, k):
        self.stats[k] = self.stats.get(k, 0) + 1

    def schema(self):
        rng = self.rng
        n_type = rng.choice([1, 1, 2, 2, 3])
        n_group = rng.choice([0, 0, 1, 2]) if (self.o.arrays or self.o.maps) else 0
        self.tnames = ["r%d" % i for i in range(n_type)]
        self.gnames = ["g%d" % i for i in range(n_group)]
        rules = []
        # later rules first so that references point forward (productive); recursion added explicitly
        self.avail_t, self.avail_g, self.flat_g = [], [], []
        self.class_t = {"size": [], "num": [], "any": []}      # rules that are a choice of prelude classes: usable as control targets
        bodies = {}
        for g in reversed(self.gnames):
            flat = rng.random() < 0.5 and self.o.maps
            if flat and self.o.clean_maps:
                used = set()
                ents = [self.mentry(1, used, only=["bare"]) for _ in range(rng.choice([1, 2]))]
                body = ents[-1]
                for it in reversed(ents[:-1]):
                    body = ("seq", it, body)
                bodies[g] = body
            else:
                bodies[g] = self.mgroup(1) if flat else self.agroup(1)
            if flat:
                self.flat_g.append(g)
            else:
                self.avail_g.append(g)
        for i in reversed(range(n_type)):
            t = self.tnames[i]
            body = self.ty(self.o.depth if i == 0 else self.o.depth - 1)
            if i > 0 and self.o.ctl and rng.random() < 0.2:
                # a rule that is a choice of several prelude classes (control operators on it: 88754b0)
                kind = rng.choice(["size", "num", "any"])
                ks = {"size": ["uint", "tstr", "text"] + (["bstr"] if self.o.cbor else []),
                      "num": ["uint", "nint", "int", "number"] + (["float"] if self.o.floats else []),
                      "any": ["uint", "nint", "int", "tstr", "bool", "number", "nil"] + (["float"] if self.o.floats else []) + (["bstr"] if self.o.cbor else [])}[kind]
                a, b = rng.sample(ks, 2)
                body = ("or", ("ref", a), ("ref", b)) if rng.random() < 0.8 else ("ref", a)
                self.note("class-choice-rule:" + kind)
                self.class_t[kind].append(t)
                self.class_t["any"].append(t)
            elif i > 0 and rng.random() < 0.25 and self.o.arrays:
                # productive recursion through an array / a tag / a map value
                how = rng.choice(["arr", "arr"] + (["tag", "tag"] if self.o.cbor else []) + (["map"] if self.o.maps else []))
                self.note("recursive-rule:" + how)
                if how == "arr":
                    rec = ("arr", ("occ", 0, None, ("ent", None, False, ("ref", t))))
                elif how == "tag":
                    rec = ("tag", rng.choice([24, 42, 55799]), ("ref", t))
                else:
                    rec = ("map", ("occ", 0, 1, ("ent", ("lit", ("txt", "n")), True, ("ref", t))))
                body = ("or", body, rec) if rng.random() < 0.7 else ("or", rec, body)
            bodies[t] = body
            if i > 0:
                self.avail_t.append(t)
        for t in self.tnames:
            rules.append((t, "type", bodies[t]))
        for g in self.gnames:
            rules.append((g, "group", bodies[g]))
        return Schema(rules)

    # ---- types ----
    def prim(self):
        names = ["uint", "nint", "int", "tstr", "text", "bool", "nil", "null", "any", "number", "true", "false"]
        if self.o.floats:
            names += ["float", "float64"]
        if self.o.cbor:
            names += ["bstr", "bytes", "undefined", "float16", "float32"]
        n = self.rng.choice(names)
        self.note("prelude:" + n)
        return ("ref", n)

    def ty(self, depth):
        rng, o = self.rng, self.o
        choices = ["prim"] * 5 + ["lit"] * 2 + ["or"] + (["range"] if o.ranges else []) + (["ctl", "ctl"] if o.ctl else [])
        if self.avail_t:
            choices += ["ref"] * 2
        if depth > 0 and o.arrays:
            choices += ["arr"] * 4
        if depth > 0 and o.maps:
            choices += ["map"] * 4
        if o.cbor:
            choices += ["tag", "major", "simple"]
        k = rng.choice(choices)
        self.note("ty:" + k)
        if k == "prim":
            return self.prim()
        if k == "lit":
            return ("lit", gen_lit(rng, o))
        if k == "range":
            lo = rng.choice([0, 1, 2, 5, 10, -2, -5, 100])
            hi = lo + rng.choice([0, 1, 2, 3, 10, 200])
            return ("range", lo, hi, rng.random() < 0.6)
        if k == "or":
            a = self.ty(depth - 1 if depth > 0 else 0)
            b = self.ty(depth - 1 if depth > 0 else 0)
            return ("or", a, b)
        if k == "ctl":
            return self.ctl(depth)
        if k == "ref":
            return ("ref", rng.choice(self.avail_t))
        if k == "arr":
            return ("arr", self.agroup(depth - 1))
        if k == "map":
            return ("map", self.mgroup(depth - 1))
        if k == "tag":
            return ("tag", rng.choice([0, 1, 2, 24, 32, 55799, 1 << 32]), self.ty(max(0, depth - 1)))
        if k == "major":
            return ("major", rng.randrange(0, 8))
        if k == "simple":
            return ("simple", rng.choice([0, 19, 20, 21, 22, 23, 32, 255]))
        raise ValueError(k)

    def ctl(self, depth):
        rng, o = self.rng, self.o
        ops = ["size", "size", "lt", "le", "gt", "ge", "eq", "ne"]
        if o.andwithin:
            ops += ["and", "within"]
        op = rng.choice(ops)
        self.note("ctl:" + op)
        pool = getattr(self, "class_t", {}).get({"size": "size", "lt": "num", "le": "num", "gt": "num", "ge": "num"}.get(op, "any"), [])
        if pool and rng.random() < 0.5:
            # target is a rule of the document that is a choice of classes
            self.note("ctl:class-rule-target")
            tgt = ("ref", rng.choice(pool))
            if op == "size":
                return ("ctl", "size", tgt, ("lit", ("int", rng.choice([0, 1, 2, 3, 4, 8]))))
            if op in ("lt", "le", "gt", "ge"):
                return ("ctl", op, tgt, ("lit", ("int", rng.choice([0, 1, 3, 10, -2, -5, 255]))))
            if op in ("eq", "ne"):
                return ("ctl", op, tgt, ("lit", gen_lit(rng, o, ["int", "txt"])))
            return ("ctl", op, tgt, self.ty(0)) if rng.random() < 0.6 else ("ctl", op, self.ty(0), tgt)
        if op == "size":
            tgt = rng.choice([("ref", "tstr"), ("ref", "uint"), ("ref", "text")] + ([("ref", "bstr"), ("ref", "bytes")] if o.cbor else []))
            if tgt[1] == "uint" or rng.random() < 0.6:
                arg = ("lit", ("int", rng.choice([0, 1, 2, 3, 4, 8])))
            else:
                lo = rng.choice([0, 1, 2])
                arg = ("range", lo, lo + rng.choice([0, 1, 3]), rng.random() < 0.7)
            return ("ctl", "size", tgt, arg)
        if op in ("lt", "le", "gt", "ge"):
            tgt = rng.choice([("ref", "int"), ("ref", "uint"), ("ref", "number"), ("ref", "nint")] + ([("ref", "float")] if o.floats else []))
            arg = ("lit", ("int", rng.choice([0, 1, 3, 10, -2, -5, 255])) if (rng.random() < 0.8 or not o.floats) else ("flt", nonint_q(rng)))
            return ("ctl", op, tgt, arg)
        if op in ("eq", "ne"):
            kind = rng.choice(["int", "txt"] + (["flt"] if o.floats else []))
            tgt = {"int": rng.choice([("ref", "int"), ("ref", "uint"), ("ref", "number")]), "txt": ("ref", "tstr"), "flt": ("ref", "float")}[kind]
            if rng.random() < 0.15:
                tgt = rng.choice([("ref", "bool"), ("ref", "any"), ("ref", "nil")])   # target that is neither text nor numeric
                self.note("ctl:eqne-odd-target")
            return ("ctl", op, tgt, ("lit", gen_lit(rng, o, [kind])))
        a = self.ty(0)
        b = self.ty(0)
        return ("ctl", op, a, b)

    # ---- array groups ----
    def occ(self, allow_none=True):
        rng = self.rng
        k = rng.choice((["none"] * 4 if allow_none else []) + ["?", "*", "+", "nm", "nm"])
        self.note("occ:" + k)
        if k == "none":
            return None
        if k == "?":
            return (0, 1)
        if k == "*":
            return (0, None)
        if k == "+":
            return (1, None)
        lo = rng.choice([0, 1, 2])
        hi = rng.choice([None, lo, lo + 1, lo + 2])
        if (lo, hi) in ((0, 1), (0, None), (1, None), (1, 1)):
            return (2, 3)
        return (lo, hi)

    def wrap_occ(self, g, allow_none=True):
        o = self.occ(allow_none)
        return g if o is None else ("occ", o[0], o[1], g)

    def aitem(self, depth):
        rng = self.rng
        choices = ["ent"] * 6 + (["inline", "gor"] if depth > 0 else []) + (["gref", "gref2"] if self.avail_g else [])
        k = rng.choice(choices)
        self.note("aitem:" + k)
        if k == "gref2":
            # the same named group met again at the same element index: alternatives with a shared named prefix,
            # a repetition followed by the group, the group twice (seeded C01-4 / C02-4: recursion guard of group references)
            g = ("gref", rng.choice(self.avail_g))
            e1 = ("ent", None, False, self.ty(0))
            e2 = ("ent", None, False, self.ty(0))
            shape = rng.choice(["alt-prefix", "alt-prefix", "rep-then", "twice"])
            self.note("gref2:" + shape)
            if shape == "alt-prefix":
                return ("gor", ("seq", g, e1), ("seq", g, e2))
            if shape == "rep-then":
                return ("seq", ("occ", 0, None, ("seq", g, e1)), g)
            return ("seq", g, g)
        if k == "ent":
            key = ("lit", ("txt", rng.choice(KEYS))) if rng.random() < 0.15 else None
            return self.wrap_occ(("ent", key, key is not None, self.ty(depth)))
        if k == "inline":
            return self.wrap_occ(self.aseq(depth - 1, 1, 2))
        if k == "gor":
            return ("gor", self.aseq(depth - 1, 0, 2), self.aseq(depth - 1, 0, 2))
        return self.wrap_occ(("gref", rng.choice(self.avail_g)))

    def aseq(self, depth, lo, hi):
        n = self.rng.randrange(lo, hi + 1)
        items = [self.aitem(depth) for _ in range(n)]
        if not items:
            return ("empty",)
        g = items[-1]
        for it in reversed(items[:-1]):
            g = ("seq", it, g)
        return g

    def agroup(self, depth):
        return self.aseq(max(depth, 0), 0, 3)

    # ---- map groups (flat member lists) ----
    def mentry(self, depth, used, only=None):
        rng, o = self.rng, self.o
        forms = only or (["bare"] * 5 + ["txt=>", "txt^=>", "wild", "wild"] + (["int:", "cwild"] if o.cbor else []))
        f = rng.choice(forms)
        self.note("mkey:" + f)
        val = self.ty(depth)
        if f in ("bare", "txt=>", "txt^=>"):
            cand = [k for k in KEYS if k not in used] or KEYS
            k = rng.choice(cand)
            if rng.random() < 0.1:
                k = rng.choice(KEYS)          # deliberate overlap
            used.add(k)
            ent = ("ent", ("lit", ("txt", k)), f != "txt=>", val)
            oc = rng.choice([None, None, (0, 1)])
        elif f == "int:":
            ent = ("ent", ("lit", ("int", rng.choice([1, 2, 3, -1]))), True, val)
            oc = rng.choice([None, (0, 1)])
        elif f == "wild":
            ent = ("ent", rng.choice([("ref", "tstr"), ("ref", "text"), ("ref", "tstr")]), False, val)
            oc = rng.choice([(0, None), (0, None), (1, None)] if only else [(0, None), (0, None), (1, None), (0, 1), None, (0, 2), (1, 2)])
        else:
            ent = ("ent", rng.choice([("ref", "uint"), ("ref", "int"), ("ref", "bstr"), ("ref", "any"), ("range", 1, 3, True)]), False, val)
            oc = rng.choice([(0, None), (1, None), (0, 1), None, (0, 2)])
        if oc is not None:
            self.note("mocc:%s*%s" % (oc[0], oc[1]))
            return ("occ", oc[0], oc[1], ent)
        return ent

    def mflat(self, depth):
        used = set()
        n = self.rng.choice([0, 1, 2, 2, 3, 3, 4])
        if self.o.clean_maps:
            items = []
            for _ in range(n):
                e = self.mentry(max(depth, 0), used, only=["bare"] * 5 + (["txt=>", "txt^=>"] if self.o.arrow_keys else []))
                items.append(e)
            gor = self.rng.random() < 0.15
            if gor:
                # a group choice between lists of required literal-keyed members (fresh keys), anywhere among the members; no wildcard then
                def alt():
                    es = []
                    for _ in range(self.rng.choice([1, 1, 2])):
                        cand = [k for k in KEYS + ["e", "f", "g", "h", "m", "n"] if k not in used]
                        if not cand:
                            break
                        k = self.rng.choice(cand)
                        used.add(k)
                        es.append(("ent", ("lit", ("txt", k)), True, self.ty(0)))
                    if not es:
                        return None
                    a = es[-1]
                    for it in reversed(es[:-1]):
                        a = ("seq", it, a)
                    return a
                a1, a2 = alt(), alt()
                if a1 is not None and a2 is not None:
                    self.note("map:gor-required")
                    items.insert(self.rng.randrange(len(items) + 1), ("gor", a1, a2))
            if not gor and self.rng.random() < 0.4:
                w = self.mentry(max(depth, 0), used, only=["wild"])
                if items and self.rng.random() < 0.3:
                    # the table BEFORE some literal-keyed members: inside the checked shape for documents that lack those keys
                    self.note("map:wild-before-literal")
                    items.insert(self.rng.randrange(len(items)), w)
                else:
                    items.append(w)
            if not gor and self.o.cbor and self.rng.random() < 0.3:
                # a wildcard over a key class disjoint from the text keys may stand anywhere
                kt = self.rng.choice(["uint", "int", "bstr", "float", "float64"])
                oc = self.rng.choice([(0, None), (1, None), (0, None)])
                w = ("ent", ("ref", kt), False, self.ty(max(depth, 0)))
                w = w if oc is None else ("occ", oc[0], oc[1], w)
                self.note("mkey:disjoint-wild")
                items.insert(self.rng.randrange(len(items) + 1), w)
        else:
            items = [self.mentry(max(depth, 0), used) for _ in range(n)]
        if self.flat_g and self.o.map_gref and self.rng.random() < 0.25:
            self.note("map:gref")
            pos = self.rng.randrange(len(items) + 1) if not self.o.clean_maps else 0
            items.insert(pos, ("gref", self.rng.choice(self.flat_g)))
        if not items:
            return ("empty",)
        g = items[-1]
        for it in reversed(items[:-1]):
            g = ("seq", it, g)
        return g

    def mgroup(self, depth):
        if self.o.map_gor and not self.o.clean_maps and self.rng.random() < 0.12:
            self.note("map:gor")
            return ("gor", self.mflat(depth), self.mflat(depth))
        return self.mflat(depth)


# ---------------------------------------------------------------------------
# documents
# ---------------------------------------------------------------------------

def rand_scalar(rng, cbor):
    k = rng.choice(["int", "int", "txt", "bool", "null", "flt"] + (["byt", "undef", "simple", "bigint"] if cbor else []))
    if k == "int":
        return ("int", small_int(rng))
    if k == "txt":
        return ("txt", rng.choice(TEXTS))
    if k == "bool":
        return ("bool", rng.random() < 0.5)
    if k == "null":
        return ("null",)
    if k == "flt":
        return ("flt", nonint_q(rng))
    if k == "byt":
        return ("byt", bytes(rng.randrange(256) for _ in range(rng.choice([0, 1, 2]))))
    if k == "undef":
        return ("undef",)
    if k == "simple":
        return ("simple", rng.choice([0, 19, 32, 255]))
    return ("int", rng.choice([(1 << 64) - 1, -(1 << 64), 1 << 63, -(1 << 63) - 1]))


def rand_value(rng, cbor, depth=2):
    if depth > 0 and rng.random() < 0.45:
        if rng.random() < 0.5:
            return ("arr", [rand_value(rng, cbor, depth - 1) for _ in range(rng.randrange(0, 4))])
        keys = rng.sample(KEYS, rng.randrange(0, 4))
        return ("map", [(("txt", k), rand_value(rng, cbor, depth - 1)) for k in keys])
    if cbor and depth > 0 and rng.random() < 0.1:
        return ("tag", rng.choice([0, 1, 24, 32]), rand_value(rng, cbor, depth - 1))
    return rand_scalar(rng, cbor)


class Inhabit:
    """a value intended to match the type (best effort: greedy PEG and controls may defeat it)"""

    def __init__(self, rng, S, cbor):
        self.rng, self.S, self.cbor = rng, S, cbor

    def ty(self, t, fuel=12):
        rng = self.rng
        if fuel <= 0:
            return ("null",)
        k = t[0]
        if k == "paren":
            return self.ty(t[1], fuel)
        if k == "any":
            return rand_scalar(rng, self.cbor)
        if k == "major":
            return {0: ("int", 7), 1: ("int", -7), 2: ("byt", b"\x01"), 3: ("txt", "m"), 4: ("arr", []), 5: ("map", []),
                    6: ("tag", 1, ("int", 0)), 7: rng.choice([("bool", True), ("null",), ("flt", 6), ("simple", 32)])}[t[1]]
        if k == "simple":
            return {20: ("bool", False), 21: ("bool", True), 22: ("null",), 23: ("undef",)}.get(t[1], ("simple", t[1]))
        if k == "float":
            return ("flt", nonint_q(rng) if not self.cbor else rng.choice([4, 6, 0, -8, 3]))
        if k == "tag":
            return ("tag", t[1], self.ty(t[2], fuel - 1))
        if k == "lit":
            return t[1]
        if k == "range":
            hi = t[2] if t[3] else t[2] - 1
            if hi < t[1]:
                return ("int", t[1])
            return ("int", rng.choice([t[1], hi, rng.randint(t[1], hi)]))
        if k == "ref":
            n = t[1]
            b = self.S.body(n)
            if b is not None and self.S.kind(n) == "type":
                return self.ty(b, fuel - 1)
            return self.prelude(n)
        if k == "or":
            return self.ty(rng.choice([t[1], t[2]]), fuel - 1)
        if k == "ctl":
            return self.ctl(t, fuel)
        if k == "arr":
            return ("arr", self.seq(t[1], fuel - 1))
        if k == "map":
            return ("map", self.members(t[1], fuel - 1))
        return ("null",)

    def prelude(self, n):
        rng = self.rng
        if n in ("uint",):
            return ("int", rng.choice([0, 1, 23, 24, 255, 256, 65536] + ([(1 << 64) - 1] if self.cbor else [])))
        if n == "nint":
            return ("int", rng.choice([-1, -2, -24, -25, -256] + ([-(1 << 64)] if self.cbor else [])))
        if n == "int":
            return ("int", small_int(rng))
        if n in ("tstr", "text"):
            return ("txt", rng.choice(TEXTS))
        if n in ("bstr", "bytes"):
            return ("byt", bytes(rng.randrange(256) for _ in range(rng.choice([0, 1, 3]))))
        if n == "bool":
            return ("bool", rng.random() < 0.5)
        if n == "true":
            return ("bool", True)
        if n == "false":
            return ("bool", False)
        if n in ("nil", "null"):
            return ("null",)
        if n == "undefined":
            return ("undef",)
        if n in ("float", "float16", "float32", "float64"):
            return ("flt", nonint_q(rng) if not self.cbor else rng.choice([4, 6, 0, -8, 3, 5]))
        if n == "number":
            return rng.choice([("int", small_int(rng)), ("flt", nonint_q(rng))])
        return rand_scalar(rng, self.cbor)

    def ctl(self, t, fuel):
        rng = self.rng
        _, op, tgt, arg = t
        if op == "size":
            n = None
            if arg[0] == "lit" and arg[1][0] == "int":
                n = arg[1][1]
            elif arg[0] == "range":
                n = rng.randint(arg[1], max(arg[1], arg[2] if arg[3] else arg[2] - 1))
            if n is None or n < 0:
                return self.ty(tgt, fuel - 1)
            name = tgt[1] if tgt[0] == "ref" else None
            if name == "uint":
                return ("int", rng.choice([0, max(0, 256 ** n - 1), (256 ** n) // 2]))
            if name in ("bstr", "bytes"):
                return ("byt", bytes(rng.randrange(256) for _ in range(n)))
            # byte length n in several spellings, and the look-alike with n CHARACTERS but more bytes
            cands = ["s" * n]
            if n >= 2:
                cands += ["é" + "s" * (n - 2), "s" * (n - 2) + "é"]
            if n >= 3:
                cands += ["€" + "s" * (n - 3)]
            if n >= 1:
                cands += ["é" * n, "€" * n if n < 4 else "é" * n]
            return ("txt", rng.choice(cands))
        if op in ("lt", "le", "gt", "ge") and arg[0] == "lit" and arg[1][0] in ("int", "flt"):
            b4 = arg[1][1] * (4 if arg[1][0] == "int" else 1)
            base = b4 // 4
            name = tgt[1] if tgt[0] == "ref" else None
            z = {"lt": base - 1, "le": base, "gt": base + 1, "ge": base + (0 if b4 % 4 == 0 else 1)}[op] + rng.choice([0, 0, -1, 1]) * (1 if op in ("gt", "ge") else -1) * rng.choice([0, 1])
            if name == "float":
                return ("flt", 4 * z + rng.choice([1, 2, 3]) * (1 if op in ("gt", "ge") else -1))
            return ("int", z)
        if op == "eq" and arg[0] == "lit":
            return arg[1]
        return self.ty(tgt, fuel - 1)

    def count(self, lo, hi):
        rng = self.rng
        top = lo + 2 if hi is None else min(hi, lo + 2)
        return rng.randint(lo, max(lo, top))

    def seq(self, g, fuel):
        if fuel <= 0:
            return []
        k = g[0]
        if k == "empty":
            return []
        if k == "seq":
            return self.seq(g[1], fuel) + self.seq(g[2], fuel)
        if k == "gor":
            return self.seq(self.rng.choice([g[1], g[2]]), fuel - 1)
        if k == "occ":
            out = []
            for _ in range(self.count(g[1], g[2])):
                out += self.seq(g[3], fuel - 1)
            return out
        if k == "ent":
            return [self.ty(g[3], fuel - 1)]
        if k == "gref":
            b = self.S.body(g[1])
            return self.seq(b, fuel - 1) if b is not None else []
        return []

    def key_for(self, kt, used, fuel):
        for _ in range(6):
            k = self.ty(kt, fuel)
            if repr(k) not in used:
                used.add(repr(k))
                return k
        return None

    def members(self, g, fuel, used=None):
        used = set() if used is None else used
        if fuel <= 0:
            return []
        k = g[0]
        if k == "empty":
            return []
        if k == "seq":
            a = self.members(g[1], fuel, used)
            return a + self.members(g[2], fuel, used)
        if k == "gor":
            return self.members(self.rng.choice([g[1], g[2]]), fuel - 1, used)
        if k == "occ":
            out = []
            for _ in range(self.count(g[1], g[2])):
                out += self.members(g[3], fuel - 1, used)
            return out
        if k == "ent":
            if g[1] is None:
                return []
            key = self.key_for(g[1], used, fuel - 1)
            if key is None:
                return []
            return [(key, self.ty(g[3], fuel - 1))]
        if k == "gref":
            b = self.S.body(g[1])
            return self.members(b, fuel - 1, used) if b is not None else []
        return []


def mutate(rng, v, cbor, depth=0):
    """a near-miss: one local change somewhere in the value"""
    k = v[0]
    if k == "arr" and v[1] and rng.random() < 0.6:
        l = list(v[1])
        c = rng.randrange(6)
        i = rng.randrange(len(l))
        if c == 0:
            l[i] = mutate(rng, l[i], cbor, depth + 1)
        elif c == 1:
            del l[i]
        elif c == 2:
            l.insert(i, l[i])
        elif c == 3:
            l.append(rand_scalar(rng, cbor))
        elif c == 4 and len(l) > 1:
            j = rng.randrange(len(l))
            l[i], l[j] = l[j], l[i]
        else:
            l[i] = rand_scalar(rng, cbor)
        return ("arr", l)
    if k == "map" and v[1] and rng.random() < 0.7:
        l = list(v[1])
        c = rng.randrange(5)
        i = rng.randrange(len(l))
        if c == 0:
            l[i] = (l[i][0], mutate(rng, l[i][1], cbor, depth + 1))
        elif c == 1:
            del l[i]
        elif c == 2:
            nk = ("txt", rng.choice(KEYS + ["zz", "q"]))
            if all(a != nk for a, _ in l):
                l.append((nk, rand_scalar(rng, cbor)))
        elif c == 3:
            nk = ("txt", rng.choice(KEYS + ["zz"]))
            if all(a != nk for a, _ in l):
                l[i] = (nk, l[i][1])
        else:
            l[i] = (l[i][0], rand_scalar(rng, cbor))
        return ("map", l)
    if k == "arr":
        return ("arr", [rand_scalar(rng, cbor)])
    if k == "map":
        return ("map", [(("txt", rng.choice(KEYS)), rand_scalar(rng, cbor))])
    if k == "int":
        return rng.choice([("int", v[1] + 1), ("int", v[1] - 1), ("int", -v[1]), ("txt", str(v[1])), ("flt", 4 * v[1] + 2) if abs(v[1]) < (1 << 40) else ("null",)])
    if k == "txt":
        return rng.choice([("txt", v[1] + "x"), ("txt", v[1][:-1]), ("int", len(v[1])), ("txt", v[1].upper() if v[1].upper() != v[1] else v[1] + "é")]
                          + ([("byt", v[1].encode("utf-8"))] * 2 if cbor else []))      # same bytes, other major type (89eeb06)
    if k == "flt":
        return rng.choice([("flt", v[1] + 1), ("flt", -v[1]), ("int", v[1] // 4)])
    if k == "bool":
        return rng.choice([("bool", not v[1]), ("int", 1 if v[1] else 0), ("null",)])
    if k == "byt":
        same = []
        try:
            same = [("txt", v[1].decode("utf-8"))] * 2         # same bytes, other major type (89eeb06)
        except UnicodeDecodeError:
            pass
        return rng.choice([("byt", v[1] + b"\x00"), ("txt", "b")] + same)
    if k == "tag":
        return rng.choice([("tag", v[1] + 1, v[2]), v[2], ("tag", v[1], mutate(rng, v[2], cbor, depth + 1))])
    return rand_scalar(rng, cbor)


def value_size(v):
    k = v[0]
    if k == "arr":
        return 1 + sum(value_size(x) for x in v[1])
    if k == "map":
        return 1 + sum(value_size(a) + value_size(b) for a, b in v[1])
    if k == "tag":
        return 1 + value_size(v[2])
    return 1
