"""Metamorphic checks on the real validators (C04, C08, C09, C10): the theorems over Sem.v say two schemas /
two documents have the same verdict; here the CODE is run on both sides of each identity, for the JSON and the
CBOR validator, and the verdicts must agree. Known findings are classified by lib/sem/zones.py on the
AST-level part of the case; everything else is a violation."""
import copy, itertools, json, random, re
from .. import common
from ..common import Result
from . import ast, gen, runner, zones
from .ast import Schema, ty_cddl, t2_cddl

EXTRACT = ["theories/Extract/ExtractSem.vo"]


def both_modes(drv, items, rng):
    """items: list of (cddl text, value). returns (json verdicts or None when not a JSON value, cbor verdicts)"""
    jidx = [i for i, (_, v) in enumerate(items) if ast.is_json_value(v)]
    jout = runner.impl_json_text(drv, [(items[i][0], ast.val_json(items[i][1])) for i in jidx])
    jv = [None] * len(items)
    for i, o in zip(jidx, jout):
        jv[i] = o
    cout = runner.impl_cbor_bytes(drv, [(c, ast.val_cbor(v, rng)) for c, v in items])
    return jv, cout


V = runner.verdict_of


def docs_for(rng, S, cbor, n=4):
    inh = gen.Inhabit(rng, S, cbor)
    out = []
    root = S.rules[0][2]
    for j in range(n):
        v = inh.ty(root)
        c = rng.random()
        if c < 0.45:
            pass
        elif c < 0.85:
            v = gen.mutate(rng, v, cbor)
        else:
            v = gen.rand_value(rng, cbor)
        if not ast.is_cbor_value(v) or gen.value_size(v) > 30:
            continue
        out.append(v)
    return out


# ---------------------------------------------------------------------------
# C09: operator / occurrence / prelude identities, in four contexts
# ---------------------------------------------------------------------------

CONTEXTS = {
    "top": (lambda T: "r0 = %s\n" % T, lambda v: v),
    "array-element": (lambda T: "r0 = [%s]\n" % T, lambda v: ("arr", [v])),
    "map-value": (lambda T: "r0 = {k: %s}\n" % T, lambda v: ("map", [(("txt", "k"), v)])),
    "generic-argument": (lambda T: "r0 = w<(%s)>\nw<x> = [x]\n" % T, lambda v: ("arr", [v])),
}

PRELUDE_EXPANSIONS = [("int", "uint / nint"), ("number", "int / float"), ("bool", "false / true"), ("text", "tstr"),
                      ("bytes", "bstr"), ("nil", "null"), ("uint", "#0"), ("nint", "#1"), ("bstr", "#2"), ("tstr", "#3"),
                      ("false", "#7.20"), ("true", "#7.21"), ("nil", "#7.22"), ("any", "#"), ("float", "float16 / float32 / float64")]


def c09_cases(rng, n):
    """yields dicts: {kind, ctx, texts: [type texts], combine: name, types: [AST types or None], docs}"""
    out = []
    o = gen.Opts(cbor=False, depth=1, clean_maps=True)
    for i in range(n):
        sg = gen.SchemaGen(rng, o)
        sg.tnames, sg.gnames, sg.avail_t, sg.avail_g, sg.flat_g = ["r0"], [], [], [], []
        A, B = sg.ty(1), sg.ty(1)
        kind = rng.choice(["or-comm", "or-sem", "and", "within", "ne-eq", "range", "occ-arr", "occ-map", "prelude"])
        ctx = rng.choice(list(CONTEXTS))
        SA = Schema([("r0", "type", A)])
        SB = Schema([("r0", "type", B)])
        docs = docs_for(rng, SA, False, 3) + docs_for(rng, SB, False, 3)
        case = {"kind": kind, "ctx": ctx, "types": [A, B]}
        if kind == "or-comm":
            case["texts"] = ["%s / %s" % (ty_cddl(A), ty_cddl(B)), "%s / %s" % (ty_cddl(B), ty_cddl(A))]
            case["combine"] = "equal"
        elif kind == "or-sem":
            case["texts"] = ["%s / %s" % (ty_cddl(A), ty_cddl(B)), ty_cddl(A), ty_cddl(B)]
            case["combine"] = "or"
        elif kind in ("and", "within"):
            if rng.random() < 0.35:
                # array operands, the second one an inline choice of array types
                def arr_of(lo, hi, el):
                    e = ("ent", None, False, ("ref", el))
                    return ("arr", e if (lo, hi) == (1, 1) else ("occ", lo, hi, e))
                A = arr_of(*rng.choice([(2, None, "int"), (1, None, "uint"), (0, 1, "int"), (2, 3, "int")]))
                B = ("or", arr_of(0, None, "uint"), arr_of(0, None, rng.choice(["nint", "int", "tstr"])))
                if rng.random() < 0.5:
                    B = ("or", B[2], B[1])
                case["types"] = [A, B]
                docs = [("arr", []), ("arr", [("int", 1)]), ("arr", [("int", -1)]), ("arr", [("int", 1), ("int", 2)]),
                        ("arr", [("int", -1), ("int", -2)]), ("arr", [("int", 1), ("int", -2)]), ("arr", [("txt", "a")])]
            case["texts"] = ["%s .%s %s" % (t2_cddl(A), kind, t2_cddl(B)), ty_cddl(A), ty_cddl(B)]
            case["combine"] = "and"
        elif kind == "ne-eq":
            lit = gen.gen_lit(rng, o, ["int", "txt"])
            T = ("ref", rng.choice(["int", "uint", "number", "tstr", "text"] if lit[0] == "int" else ["tstr", "text"]))
            if lit[0] == "txt" and T[1] not in ("tstr", "text"):
                T = ("ref", "tstr")
            if lit[0] == "int" and T[1] in ("tstr", "text"):
                T = ("ref", "int")
            case["types"] = [("ctl", "ne", T, ("lit", lit)), ("ctl", "eq", T, ("lit", lit))]
            tname = ty_cddl(T)
            if lit[0] == "int" and rng.random() < 0.5:
                # the target is a rule of the document: a controlled numeric type, an alias chain to one, a choice of classes
                tname, case["defs"] = rng.choice([
                    ("small", "small = uint .le 100\n"), ("tiny", "tiny = small\nsmall = uint .le 100\n"),
                    ("port", "port = uint .size 1\n"), ("cls", "cls = uint / nint\n"), ("neg", "neg = nint .ge -50\n"),
                    ("rng", "rng = 2..40\n"), ("al", "al = al2\nal2 = int\n")])
                case["types"] = [None]
                case["target_rule"] = tname
            case["texts"] = ["%s .ne %s" % (tname, ast.lit_cddl(lit)), tname, "%s .eq %s" % (tname, ast.lit_cddl(lit))]
            case["combine"] = "and-not"
            docs = [lit if lit[0] != "int" else ("int", lit[1]), ("int", 0), ("int", lit[1] + 1 if lit[0] == "int" else 5), ("txt", "zz"), ("txt", "a")] + docs[:2]
            if "defs" in case:
                docs = docs[:4] + [("int", 500), ("int", -3), ("int", 41), ("int", 2)]
        elif kind == "range":
            lo = rng.choice([0, 1, 2, 10])
            hi = lo + rng.choice([0, 1, 3, 10])
            case["types"] = [("range", lo, hi, True)]
            case["texts"] = ["%d..%d" % (lo, hi), "%d...%d" % (lo, hi), "%d...%d" % (lo, hi + 1)]
            case["combine"] = "range"
            case["hi"] = hi
            docs = [("int", x) for x in (lo - 1, lo, hi - 1, hi, hi + 1)] + [("txt", "a"), ("flt", 4 * hi + 2)]
        elif kind == "occ-arr":
            sug, lo, hi = rng.choice([("?", 0, 1), ("*", 0, None), ("+", 1, None)])
            T = ty_cddl(A) if ast.is_type2(A) else "(" + ty_cddl(A) + ")"
            case["texts"] = ["[%s %s]" % (sug, T), "[%d*%s %s]" % (lo, "" if hi is None else hi, T)]
            case["combine"] = "equal"
            base = docs_for(rng, SA, False, 4)
            docs = [("arr", base[:k]) for k in range(0, min(4, len(base) + 1))] + [("arr", [("null",)] * 2)]
        elif kind == "occ-map":
            sug, lo, hi = rng.choice([("?", 0, 1), ("*", 0, None), ("+", 1, None)])
            T = ty_cddl(A)
            if sug == "?":
                case["texts"] = ["{? m: %s}" % T, "{0*1 m: %s}" % T]
                base = docs_for(rng, SA, False, 2)
                docs = [("map", [])] + [("map", [(("txt", "m"), b)]) for b in base] + [("map", [(("txt", "q"), ("int", 1))])]
            else:
                case["texts"] = ["{%s tstr => %s}" % (sug, T), "{%d* tstr => %s}" % (lo, T)]
                base = docs_for(rng, SA, False, 3)
                docs = [("map", [(("txt", "k%d" % j), b) for j, b in enumerate(base[:k])]) for k in range(0, len(base) + 1)]
            case["combine"] = "equal"
        else:
            name, exp = rng.choice(PRELUDE_EXPANSIONS)
            case["types"] = [("ref", name if name in ast.PRELUDE else "any")]
            case["texts"] = [name, exp]
            case["combine"] = "equal"
            docs = [gen.rand_scalar(rng, True) for _ in range(5)] + [("arr", []), ("map", [])]
        case["docs"] = [d for d in docs if ast.is_cbor_value(d)][:8]
        out.append(case)
    # exhaustive small scope for the range identity: every lo <= hi in -3..3 (negative, mixed-sign and zero bounds), every context
    for lo in range(-3, 4):
        for hi in range(lo, 4):
            for ctx in CONTEXTS:
                out.append({"kind": "range", "ctx": ctx, "types": [("range", lo, hi, True)], "combine": "range", "hi": hi,
                            "texts": ["%d..%d" % (lo, hi), "%d...%d" % (lo, hi), "%d...%d" % (lo, hi + 1)],
                            "docs": [("int", x) for x in range(lo - 1, hi + 2)] + [("txt", "a")]})
    return out


def combine(kind, vs, case, doc):
    """expected relation between the verdict list vs (booleans); returns None if it holds, else a message"""
    if kind == "equal":
        return None if len(set(vs)) == 1 else "verdicts differ: %r" % vs
    if kind == "or":
        return None if vs[0] == (vs[1] or vs[2]) else "A / B is %s but A is %s and B is %s" % tuple(vs)
    if kind == "and":
        return None if vs[0] == (vs[1] and vs[2]) else "A .and/.within B is %s but A is %s and B is %s" % tuple(vs)
    if kind == "and-not":
        return None if vs[0] == (vs[1] and not vs[2]) else "T .ne v is %s but T is %s and T .eq v is %s" % tuple(vs)
    if kind == "range":
        at_hi = doc == ("int", case["hi"])
        if vs[0] != vs[2]:
            return "lo..hi is %s but lo...hi+1 is %s" % (vs[0], vs[2])
        if not at_hi and vs[0] != vs[1]:
            return "lo..hi and lo...hi differ away from the upper bound: %s vs %s" % (vs[0], vs[1])
        if at_hi and not (vs[0] and not vs[1]):
            return "at the upper bound lo..hi is %s and lo...hi is %s" % (vs[0], vs[1])
        return None
    raise ValueError(kind)


def run_c09(prop, prop_file, tier, seed):
    res = Result(prop, tier, seed)
    proved = common.prove(res, prop, prop_file, EXTRACT)
    drv = common.build_harness("c01")
    rng = random.Random(seed)
    n = (15000 if tier == "quick" else 60000) * (2 if not proved else 1)
    cases = c09_cases(rng, n)
    items, index = [], []
    for ci, c in enumerate(cases):
        wrapT, wrapV = CONTEXTS[c["ctx"]]
        for di, d in enumerate(c["docs"]):
            for ti, T in enumerate(c["texts"]):
                items.append((wrapT(T) + c.get("defs", ""), wrapV(d)))
                index.append((ci, di, ti))
    jv, cv = both_modes(drv, items, rng)
    hist, known_hits, nviol, evals = {}, {}, 0, 0
    kf1 = {k["id"]: k for k in common.known_findings("C01")}
    kf2 = {k["id"]: k for k in common.known_findings("C02")}
    kf9 = {k["id"]: k for k in common.known_findings(prop)}
    pos = 0
    distinct = set()
    for ci, c in enumerate(cases):
        k = len(c["texts"])
        for di, d in enumerate(c["docs"]):
            rows = list(range(pos, pos + k))
            pos += k
            for mode, outs in (("json", jv), ("cbor", cv)):
                raw = [outs[r] for r in rows]
                if any(x is None for x in raw):
                    continue
                if any(V(x) == "E schema" for x in raw):
                    # a text the parser rejects is C03's business, not an identity of the validators
                    hist["skipped-schema-rejected"] = hist.get("skipped-schema-rejected", 0) + 1
                    continue
                if any(V(x) not in ("T", "F") for x in raw):
                    hist["error-verdict"] = hist.get("error-verdict", 0) + 1
                    msg = "a variant is not validated at all: %r" % [x[:80] for x in raw]
                else:
                    msg = combine(c["combine"], [V(x) == "T" for x in raw], c, d)
                evals += 1
                hist["%s/%s" % (c["kind"], c["ctx"])] = hist.get("%s/%s" % (c["kind"], c["ctx"]), 0) + 1
                distinct.add((tuple(c["texts"]), c["ctx"], ast.val_sexp(d)))
                if msg:
                    zs = set()
                    for T in c["types"]:
                        if T is not None:
                            zs |= zones.zones(Schema([("r0", "type", T)]), d, mode)
                    kfs = kf1 if mode == "json" else kf2
                    zs = {z for z in zs if z in kfs}
                    extra = c09_zone(c, d, mode, raw)
                    if extra and extra in kf9:
                        known_hits[extra] = known_hits.get(extra, 0) + 1
                        res.known(kf9[extra])
                    elif zs:
                        kid = sorted(zs)[0]
                        known_hits[kid] = known_hits.get(kid, 0) + 1
                    else:
                        nviol += 1
                        if nviol <= 20:
                            wrapT, wrapV = CONTEXTS[c["ctx"]]
                            res.violation("%s validator, identity %s in context %s, document %s: %s\n%s" % (
                                mode, c["kind"], c["ctx"], ast.val_sexp(wrapV(d)), msg, "\n".join(wrapT(T).strip() for T in c["texts"])),
                                {"mode": mode, "kind": c["kind"], "ctx": c["ctx"], "schemas": [wrapT(T) for T in c["texts"]],
                                 "doc_json": ast.val_json(wrapV(d)) if ast.is_json_value(d) else None, "doc_cbor": ast.val_cbor(wrapV(d)).hex(), "impl": raw})
    for kf in kf9.values():
        bad = 0
        for c in kf["witness"]["cases"]:
            if c["mode"] == "json":
                o = runner.impl_json_text(drv, [(sc, c["doc"]) for sc in c["schemas"]])
            else:
                o = runner.impl_cbor_bytes(drv, [(sc, bytes.fromhex(c["doc"])) for sc in c["schemas"]])
            if len({V(x) for x in o}) > 1:
                bad += 1
        if bad:
            res.known(kf)
        else:
            res.notes.append("finding %s apparently repaired" % kf["id"])
    if not proved and not res.violations:
        res.violation(res.proof_broken, {"kind": "proof-obligation", "detail": res.proof_broken}, no_input=True)
    res.coverage.update({
        "evaluations": evals, "distinct_nontrivial": len(distinct),
        "rule": "identity instances (A/B vs B/A vs either; .and/.within vs both; .ne vs .eq within T; .. vs ... around the upper bound; "
                "?,*,+ vs 0*1,0*,1* in arrays and maps; prelude name vs Appendix D expansion) x 4 contexts (top level, array element, map value, generic argument) "
                "x documents (inhabitants of the operands, near-miss mutants, unrelated) x both validators; distinct = distinct (identity texts, context, document)",
        "identity_context_histogram": hist, "known_finding_hits": known_hits,
        "samples": [{"kind": c["kind"], "ctx": c["ctx"], "texts": c["texts"], "doc": ast.val_sexp(c["docs"][0]) if c["docs"] else None} for c in cases[:6]],
    })
    res.assumptions = ["the identities are theorems over Sem.v (Props/C09.v); the code side is sampled"]
    return res.finish()


def c09_zone(c, d, mode, raw):
    """known findings specific to C09 identities (narrow)"""
    if c["kind"] == "occ-map" and c["texts"][1].startswith("{0*1 ") and mode == "json":
        return "kf-c09-map-explicit-0star1-not-optional"
    if c["kind"] == "prelude" and mode == "json" and "#" in c["texts"][1]:
        return "kf-c09-json-hash-types-unsupported"
    if c["kind"] in ("within", "and"):
        S0 = Schema([("r0", "type", ("null",))])
        if all(zones.contains_map(S0, T) for T in c["types"][:2]):
            return "kf-c09-and-within-map-operands"
    return None


# ---------------------------------------------------------------------------
# C08: refactorings
# ---------------------------------------------------------------------------

def subterm_paths(t, path=()):
    """paths to type subterms inside a type (through or/ctl target/tag/array entries/map values)"""
    out = [path]
    k = t[0]
    if k == "or":
        out += subterm_paths(t[1], path + (1,)) + subterm_paths(t[2], path + (2,))
    elif k == "tag":
        out += subterm_paths(t[2], path + (2,))
    elif k == "ctl" and t[1] in ("and", "within"):
        out += subterm_paths(t[2], path + (2,)) + subterm_paths(t[3], path + (3,))
    elif k in ("arr", "map"):
        out += [path + (1,) + p for p in group_type_paths(t[1])]
    return out


def group_type_paths(g, path=()):
    k = g[0]
    out = []
    if k in ("seq", "gor"):
        out += group_type_paths(g[1], path + (1,)) + group_type_paths(g[2], path + (2,))
    elif k == "occ":
        out += group_type_paths(g[3], path + (3,))
    elif k == "ent":
        out += [path + (3,) + p for p in subterm_paths(g[3])]
    return out


def get_at(t, path):
    for i in path:
        t = t[i]
    return t


def set_at(t, path, new):
    if not path:
        return new
    l = list(t)
    l[path[0]] = set_at(t[path[0]], path[1:], new)
    return tuple(l)


def refs_in(t, acc=None):
    acc = set() if acc is None else acc
    if isinstance(t, tuple):
        if t and t[0] in ("ref", "gref"):
            acc.add(t[1])
        for x in t[1:]:
            refs_in(x, acc)
    return acc


def refactor(rng, S):
    """returns (kind, cddl text of the refactored schema) or None"""
    rules = list(S.rules)
    kind = rng.choice(["name-intro", "inline", "parens", "rename", "add-rules", "reorder", "incr-choice", "socket", "generic", "generic-ctl", "generic-group",
                       "incr-maps", "generic-map-group", "group-unparen"])
    PRIMS = ["int", "tstr", "bool", "uint", "nil", "float"]
    if kind == "group-unparen":
        # `g = (* int)` against `g = * int`: a group rule is a group ENTRY; an occurrence written at the top of the definition
        # belongs to the rule (seeded C08-6)
        cands = [i for i, (n_, k_, b_) in enumerate(rules) if k_ == "group" and (b_[0] == "ent" or (b_[0] == "occ" and b_[3][0] == "ent"))]
        if not cands:
            # make one: the root becomes an array that refers to a new one-entry group rule
            occ = rng.choice([(0, None), (1, None), (0, 1), (2, 3), None])
            e = ("ent", None, False, ("ref", rng.choice(PRIMS[:4])))
            gb = e if occ is None else ("occ", occ[0], occ[1], e)
            first = ("ent", None, False, ("ref", rng.choice(PRIMS[:4])))
            S2 = Schema([("r0", "type", ("arr", ("seq", first, ("gref", "tail")))), ("tail", "group", gb)])
            t1 = S2.cddl()
            t2 = t1.replace("tail = (%s)" % ast.grp_cddl(gb, False), "tail = %s" % ast.grp_cddl(gb, False))
            return kind, (t1, t2, S2)
        i = rng.choice(cands)
        n_, k_, b_ = rules[i]
        t1 = S.cddl()
        t2 = t1.replace("%s = (%s)" % (n_, ast.grp_cddl(b_, False)), "%s = %s" % (n_, ast.grp_cddl(b_, False)))
        if t1 == t2:
            return None
        return kind, (t1, t2, S)
    if kind == "incr-maps":
        # a choice of MAPS that share a key, spelled inline / as a base rule plus '/=' increments / through a $socket (seeded C08-3:
        # what a failed earlier arm recorded must not be visible to a later arm)
        n = rng.choice([2, 2, 3])
        shared = rng.choice(["x", "id"])
        own = rng.sample(["y", "z", "w", "v"], n)
        arms = []
        for i in range(n):
            ents = [("ent", ("lit", ("txt", shared)), True, ("ref", rng.choice(PRIMS[:3])))]
            e2 = ("ent", ("lit", ("txt", own[i])), True, ("ref", rng.choice(PRIMS)))
            ents.append(("occ", 0, 1, e2) if rng.random() < 0.2 else e2)
            if rng.random() < 0.3:
                ents.reverse()
            arms.append(("map", ("seq", ents[0], ents[1])))
        body = arms[-1]
        for a in reversed(arms[:-1]):
            body = ("or", a, body)
        root = rng.choice([("ref", "item"), ("arr", ("occ", 0, None, ("ent", None, False, ("ref", "item")))),
                           ("map", ("ent", ("lit", ("txt", "k")), True, ("ref", "item")))])
        S2 = Schema([("r0", "type", root), ("item", "type", body)])
        form = rng.choice(["incr", "socket"])
        if form == "incr":
            lines = ["r0 = %s" % ty_cddl(root), "item = %s" % ty_cddl(arms[0])] + ["item /= %s" % ty_cddl(a) for a in arms[1:]]
        else:
            lines = ["r0 = %s" % ty_cddl(root).replace("item", "$item")] + ["$item /= %s" % ty_cddl(a) for a in arms]
        return kind, (S2.cddl(), "\n".join(lines) + "\n", S2)
    if kind == "generic-map-group":
        # the same generic GROUP rule instantiated several times in ONE map vs the hand-substituted members (seeded C08-4)
        n = rng.choice([2, 3, 3, 4])
        keys = rng.sample(["a", "b", "c", "d", "e"], n)
        vals = [rng.choice(PRIMS) for _ in range(n)]
        ents = [("ent", ("lit", ("txt", k)), False, ("ref", v)) for k, v in zip(keys, vals)]
        g = ents[-1]
        for it in reversed(ents[:-1]):
            g = ("seq", it, g)
        S2 = Schema([("r0", "type", ("map", g))])
        t1 = "r0 = {%s}\n" % ", ".join("(\"%s\" => %s)" % (k, v) for k, v in zip(keys, vals))
        t2 = "r0 = {%s}\nkv<K, V> = (K => V)\n" % ", ".join("kv<\"%s\", %s>" % (k, v) for k, v in zip(keys, vals))
        return kind, (t1, t2, S2)
    if kind == "generic-group":
        # a generic GROUP rule instantiated several times with different arguments in one array vs the hand-substituted entries
        names = ["tstr", "int", "bool", "uint", "nil"]
        A, B = rng.sample(names, 2)
        shape = rng.choice(["pair", "single", "opt"])
        if shape == "pair":
            body, subst = "(t, t)", lambda x: [x, x]
        elif shape == "single":
            body, subst = "(t)", lambda x: [x]
        else:
            body, subst = "(t, ? t)", lambda x: [x, "? " + x]
        use = [A, B] if rng.random() < 0.7 else [A, B, A]
        t1 = "r0 = [%s]\n" % ", ".join(", ".join(subst(x)) for x in use)
        t2 = "r0 = [%s]\np<t> = %s\n" % (", ".join("p<%s>" % x for x in use), body)
        ents = []
        for x in use:
            for y in subst(x):
                e = ("ent", None, False, ("ref", y.replace("? ", "")))
                ents.append(("occ", 0, 1, e) if y.startswith("? ") else e)
        g = ents[-1]
        for it in reversed(ents[:-1]):
            g = ("seq", it, g)
        return kind, (t1, t2, Schema([("r0", "type", ("arr", g))]))
    if kind == "generic-ctl":
        # instantiating a generic rule whose parameter is the TARGET of a control vs substituting by hand:
        #   r0 = b<A>  b<t> = t .op ARG      ==      r0 = (A) .op ARG
        A = rng.choice([("range", 0, 10, True), ("range", 5, 20, False), ("ref", "uint"), ("ref", "int"), ("or", ("ref", "uint"), ("ref", "tstr")),
                        ("ctl", "lt", ("ref", "int"), ("lit", ("int", 8))), ("ref", "tstr"), ("ctl", "size", ("ref", "tstr"), ("lit", ("int", 2)))])
        op, ARG = rng.choice([("and", ("range", 5, 20, True)), ("within", ("range", 5, 20, True)), ("and", ("ref", "uint")), ("lt", ("lit", ("int", 7))),
                              ("ge", ("lit", ("int", 3))), ("ne", ("lit", ("int", 6))), ("size", ("lit", ("int", 1))), ("within", ("ref", "number"))])
        return kind, ("r0 = %s .%s %s\n" % (t2_cddl(A), op, t2_cddl(ARG)), "r0 = b<%s>\nb<t> = t .%s %s\n" % (t2_cddl(A) if A[0] == "or" else ty_cddl(A), op, t2_cddl(ARG)),
                      Schema([("r0", "type", ("ctl", op, A, ARG))]))
    type_rules = [i for i, (_, k, _) in enumerate(rules) if k == "type"]
    ri = rng.choice(type_rules)
    name, _, body = rules[ri]
    paths = subterm_paths(body)
    if kind == "name-intro":
        p = rng.choice(paths)
        sub = get_at(body, p)
        fresh = "n%d" % rng.randrange(100, 999)
        rules[ri] = (name, "type", set_at(body, p, ("ref", fresh)))
        rules.append((fresh, "type", sub))
        return kind, Schema(rules).cddl()
    if kind == "inline":
        cands = [p for p in paths if get_at(body, p)[0] == "ref" and S.body(get_at(body, p)[1]) is not None and S.kind(get_at(body, p)[1]) == "type"
                 and get_at(body, p)[1] not in refs_in(S.body(get_at(body, p)[1]))]
        if not cands:
            return None
        p = rng.choice(cands)
        target = get_at(body, p)[1]
        rules[ri] = (name, "type", set_at(body, p, ("paren", S.body(target))))
        return kind, Schema(rules).cddl()
    if kind == "parens":
        p = rng.choice(paths)
        rules[ri] = (name, "type", set_at(body, p, ("paren", get_at(body, p))))
        return kind, Schema(rules).cddl()
    if kind == "rename":
        mp = {n: "q%s" % n for (n, _, _) in rules}

        def ren(t):
            if isinstance(t, tuple):
                if t and t[0] in ("ref", "gref") and t[1] in mp:
                    return (t[0], mp[t[1]])
                return tuple(ren(x) for x in t)
            return t
        return kind, Schema([(mp[n], k, ren(b)) for (n, k, b) in rules]).cddl()
    if kind == "add-rules":
        extra = [("zz%d" % i, "type", rng.choice([("ref", "int"), ("arr", ("ent", None, False, ("ref", "tstr"))), ("lit", ("txt", "x"))])) for i in range(rng.randrange(1, 3))]
        pos = rng.randrange(1, len(rules) + 1)
        return kind, Schema(rules[:pos] + extra + rules[pos:]).cddl()
    if kind == "reorder":
        if len(rules) < 3:
            return None
        rest = rules[1:]
        rng.shuffle(rest)
        return kind, Schema([rules[0]] + rest).cddl()
    if kind in ("incr-choice", "socket"):
        cands = [i for i in type_rules if rules[i][2][0] == "or"]
        if not cands:
            return None
        i = rng.choice(cands)
        n, _, b = rules[i]
        arms = []

        def flat(t):
            if t[0] == "or":
                flat(t[1])
                flat(t[2])
            else:
                arms.append(t)
        flat(b)
        lines = []
        for j, (m, k, bb) in enumerate(rules):
            if j == i:
                if kind == "incr-choice":
                    lines.append("%s = %s" % (n, ty_cddl(arms[0])))
                else:
                    lines.append("%s = $s-%s" % (n, n))
            else:
                lines.append(Schema([(m, k, bb)]).cddl().strip())
        if kind == "incr-choice":
            for a in arms[1:]:
                lines.append("%s /= %s" % (n, ty_cddl(a)))
        else:
            for a in arms:
                lines.append("$s-%s /= %s" % (n, ty_cddl(a)))
            if rng.random() < 0.6:
                # an unrelated, unreachable PLAIN rule with the same bare name as the socket: `$x` and `x` are different names
                lines.append("s-%s = %s" % (n, rng.choice(["bool", "nil", "\"plain\"", "[* bool]"])))
        return kind, "\n".join(lines) + "\n"
    if kind == "generic":
        p = rng.choice(paths)
        if not p:
            return None
        sub = get_at(body, p)
        gname = "p%d" % rng.randrange(100, 999)
        templ = set_at(body, p, ("ref", "x"))
        lines = []
        for j, (m, k, bb) in enumerate(rules):
            if j == ri:
                lines.append("%s = %s<%s>" % (name, gname, t2_cddl(sub) if sub[0] == "or" else ty_cddl(sub)))
            else:
                lines.append(Schema([(m, k, bb)]).cddl().strip())
        lines.append("%s<x> = %s" % (gname, ty_cddl(templ)))
        return kind, "\n".join(lines) + "\n"
    return None


def run_c08(prop, prop_file, tier, seed):
    res = Result(prop, tier, seed)
    proved = common.prove(res, prop, prop_file, EXTRACT)
    drv = common.build_harness("c01")
    rng = random.Random(seed)
    n = (20000 if tier == "quick" else 90000) * (2 if not proved else 1)
    items, meta = [], []
    for i in range(n):
        cb = rng.random() < 0.4
        o = gen.Opts(cbor=cb, clean_maps=True, depth=rng.choice([1, 2, 2]))
        S = gen.SchemaGen(rng, o).schema()
        r = refactor(rng, S)
        if r is None:
            continue
        kind, text2 = r
        text1 = S.cddl()
        if kind == "generic-ctl":
            text1, text2, S = text2
            dd = [("int", x) for x in (0, 3, 5, 6, 7, 10, 15, 20, 25, -1)] + [("txt", "a"), ("txt", "ab"), ("flt", 22)]
        elif kind in ("incr-maps", "generic-map-group", "group-unparen"):
            text1, text2, S = text2
            dd = docs_for(rng, S, cb if kind == "group-unparen" else False, 6)
        elif kind == "generic-group":
            text1, text2, S = text2
            dd = docs_for(rng, S, False, 4)
            if dd and dd[0][0] == "arr" and len(dd[0][1]) >= 2:
                l = dd[0][1]
                dd.append(("arr", [l[0]] * len(l)))          # every element of the first instantiation's kind
                dd.append(("arr", [l[-1]] * len(l)))
        else:
            dd = docs_for(rng, S, cb, 3)
        if kind in ("generic-ctl", "generic-group", "incr-maps", "generic-map-group", "group-unparen"):
            cb = False if kind != "group-unparen" else cb
        for d in dd:
            items.append((text1, d))
            items.append((text2, d))
            meta.append((kind, S, text2, d, cb))
    jv, cv = both_modes(drv, items, rng)
    hist, known_hits, nviol, evals, distinct = {}, {}, 0, 0, set()
    kfs = {"json": {k["id"]: k for k in common.known_findings("C01")}, "cbor": {k["id"]: k for k in common.known_findings("C02")}}
    kf8 = {k["id"]: k for k in common.known_findings(prop)}
    for kf in kf8.values():
        bad = 0
        for c in kf["witness"]["cases"]:
            o = runner.impl_json_text(drv, [(sc, c["doc"]) for sc in c["schemas"]])
            if len({V(x) for x in o}) > 1:
                bad += 1
        if bad:
            res.known(kf)
        else:
            res.notes.append("finding %s apparently repaired" % kf["id"])
    for mi, (kind, S, text2, d, cb) in enumerate(meta):
        for mode, outs in (("json", jv), ("cbor", cv)):
            a, b = outs[2 * mi], outs[2 * mi + 1]
            if a is None or b is None:
                continue
            if mode == "json" and cb:
                continue        # the schema uses CBOR-only constructs
            evals += 1
            hist["%s/%s" % (kind, mode)] = hist.get("%s/%s" % (kind, mode), 0) + 1
            distinct.add((S.cddl(), text2, ast.val_sexp(d)))
            if V(b) == "E schema" and V(a) != "E schema":
                # the refactored text is rejected by the parser: C03's business (e.g. a group entry that starts with a parenthesised type)
                hist["skipped-refactored-rejected/%s" % kind] = hist.get("skipped-refactored-rejected/%s" % kind, 0) + 1
                continue
            if V(a) != V(b):
                zs = {z for z in zones.zones(S, d, mode) if z in kfs[mode]}
                k8 = "kf-c08-generic-param-as-control-target"
                if k8 in kf8 and c08_zone(kind, S, text2, d, mode, a, b):
                    known_hits[k8] = known_hits.get(k8, 0) + 1
                    res.known(kf8[k8])
                elif "kf-c08-parenthesised-control-target" in kf8 and kind == "parens" and parens_ctl_zone(S, text2):
                    known_hits["kf-c08-parenthesised-control-target"] = known_hits.get("kf-c08-parenthesised-control-target", 0) + 1
                elif zs:
                    kid = sorted(zs)[0]
                    known_hits[kid] = known_hits.get(kid, 0) + 1
                else:
                    nviol += 1
                    if nviol <= 20:
                        res.violation("%s validator: refactoring '%s' changes the verdict on %s: %s -> %s\n--- original\n%s--- refactored\n%s" % (
                            mode, kind, ast.val_sexp(d), a[:80], b[:80], S.cddl(), text2),
                            {"mode": mode, "kind": kind, "schema": S.cddl(), "refactored": text2,
                             "doc_json": ast.val_json(d) if ast.is_json_value(d) else None, "doc_cbor": ast.val_cbor(d).hex(), "impl": [a, b]})
    if not proved and not res.violations:
        res.violation(res.proof_broken, {"kind": "proof-obligation", "detail": res.proof_broken}, no_input=True)
    res.coverage.update({
        "evaluations": evals, "distinct_nontrivial": len(distinct),
        "rule": "schema S from the core generator x one refactoring at a random position (name introduction, inlining, redundant parentheses, "
                "consistent renaming, adding unreachable rules, reordering non-first rules, base rule + '/=' increments, $socket, generic rule + instantiation) "
                "x documents (inhabitants, near-miss, unrelated) x both validators; verdict(S,d) must equal verdict(refactor(S),d)",
        "refactoring_histogram": hist, "known_finding_hits": known_hits,
        "samples": [{"kind": m[0], "schema": m[1].cddl(), "refactored": m[2], "doc": ast.val_sexp(m[3])} for m in meta[:5]],
    })
    res.assumptions = ["transparency of naming and rule order are theorems over Sem.v (Props/C08.v); generics, sockets and parentheses are checked on the code only"]
    return res.finish()


_CMP_OPS = ("lt", "le", "gt", "ge", "size", "eq", "ne")
_PAREN_TGT = re.compile(r"\)\s*\.(lt|le|gt|ge|size|eq|ne)\b")


def _wholly_parenthesised(body):
    body = body.strip()
    if not (body.startswith("(") and body.endswith(")")):
        return False
    depth = 0
    for i, ch in enumerate(body):
        if ch == "(":
            depth += 1
        elif ch == ")":
            depth -= 1
            if depth == 0 and i != len(body) - 1:
                return False
    return True


def parens_ctl_zone(S, text2):
    """narrow, syntactic classifier of kf-c08-parenthesised-control-target: the added parentheses are directly the target of a
    comparison / .size control, or they wrap the whole body of a rule that is referenced as the target of such a control"""
    t1 = S.cddl()
    if len(_PAREN_TGT.findall(text2)) > len(_PAREN_TGT.findall(t1)):
        return True
    tgt = {t[2][1] for t, _ in zones.all_types(S) if t[0] == "ctl" and t[1] in _CMP_OPS and t[2][0] == "ref"}
    for l1, l2 in zip(t1.split("\n"), text2.split("\n")):
        if l1 != l2 and "=" in l2:
            nm, body = l2.split("=", 1)
            if nm.strip() in tgt and _wholly_parenthesised(body):
                return True
    return False


def c08_zone(kind, S, text2, d, mode, a, b):
    """narrow classifier of kf-c08-generic-param-as-control-target: the generic parameter is the target of a
    comparison / .size control, or of .and/.within whose controller is a plain type name"""
    if kind != "generic-ctl":
        return False
    t = S.rules[0][2]
    op, arg = t[1], t[3]
    return op in ("lt", "le", "gt", "ge", "eq", "ne", "size") or (op in ("and", "within") and arg[0] == "ref")


# ---------------------------------------------------------------------------
# C10: entry order
# ---------------------------------------------------------------------------

def permute_maps(rng, v):
    k = v[0]
    if k == "map":
        l = [(permute_maps(rng, a), permute_maps(rng, b)) for a, b in v[1]]
        rng.shuffle(l)
        return ("map", l)
    if k == "arr":
        return ("arr", [permute_maps(rng, x) for x in v[1]])
    if k == "tag":
        return ("tag", v[1], permute_maps(rng, v[2]))
    return v


def has_map(v, minlen=2):
    k = v[0]
    if k == "map":
        return len(v[1]) >= minlen or any(has_map(b, minlen) for _, b in v[1])
    if k == "arr":
        return any(has_map(x, minlen) for x in v[1])
    if k == "tag":
        return has_map(v[2], minlen)
    return False


def permute_members(rng, t):
    """shuffle the members of every map group whose members have pairwise disjoint key sets"""
    if not isinstance(t, tuple):
        return t
    if t and t[0] == "map":
        ms = ast.flatten_seq(t[1]) if t[1][0] != "empty" else []
        parts = [zones.member_parts(m) for m in ms]
        if len(ms) >= 2 and all(p is not None for p in parts):
            kcs = [zones.key_class(p[2]) for p in parts]
            disjoint = all(not zones.classes_overlap(kcs[i], kcs[j]) for i in range(len(kcs)) for j in range(i + 1, len(kcs)))
            if disjoint:
                ms2 = [permute_members(rng, m) for m in ms]
                rng.shuffle(ms2)
                g = ms2[-1]
                for it in reversed(ms2[:-1]):
                    g = ("seq", it, g)
                return ("map", g)
    return tuple(permute_members(rng, x) for x in t)


ORDER_ZONES = {"kf-c01-map-member-shape", "kf-c02-map-member-shape", "kf-c01-arrow-key-acts-as-cut"}


def c10_order_family(rng, n):
    """text-level groups for member-order independence outside the model fragment: members whose keys are pairwise disjoint, one
    of them keyed by a group-to-choice enumeration `&(x: "a", y: "b") => T` (seeded C10-6) or - CBOR - by an array / a map
    (seeded C10-5); every order of the members must give the same verdict. Returns [(texts of all orders, doc, cbor_only)]."""
    import itertools
    out = []
    VALS = [("int", 1), ("txt", "v"), ("bool", True), ("null",)]
    for i in range(n):
        kind = rng.choice(["enum-key", "enum-key", "array-key", "map-key"])
        ty = lambda: rng.choice(["int", "tstr", "bool"])
        members = []                # (text, is_composite_key, [key values])
        keyvals = []                # (key value, declared type) of the members a document may use
        lit = rng.sample(["s", "t", "u"], rng.choice([1, 2]))
        for k in lit:
            t = ty()
            opt = rng.random() < 0.3
            members.append(("%s\"%s\" => %s" % ("? " if opt else "", k, t), False, [("txt", k)]))
            keyvals.append((("txt", k), t, opt))
        cbor_only = kind != "enum-key"
        if kind == "enum-key":
            named = rng.random() < 0.4
            t = ty()
            occ = rng.choice(["", "? ", "* "])
            members.append(("%s%s => %s" % (occ, "&keys" if named else "&(x: \"a\", y: \"b\")", t), False, [("txt", "a"), ("txt", "b")]))
            extra = "keys = (x: \"a\", y: \"b\")\n" if named else ""
            special = [(("txt", "a"), t), (("txt", "b"), t)]
        elif kind == "array-key":
            t = ty()
            members.append(("? [1, 2] => %s" % t, True, [("arr", [("int", 1), ("int", 2)])]))       # optional only: see the finding
            extra = ""
            special = [(("arr", [("int", 1), ("int", 2)]), t)]
        else:
            t = ty()
            members.append(("? {\"k\" => 1} => %s" % t, True, [("map", [(("txt", "k"), ("int", 1))])]))
            extra = ""
            special = [(("map", [(("txt", "k"), ("int", 1))]), t)]
        orders = list(itertools.permutations(members))
        texts = ["m = { %s }\n%s" % (", ".join(m[0] for m in p), extra) for p in orders]
        good = {"int": ("int", 1), "tstr": ("txt", "v"), "bool": ("bool", True)}
        for j in range(6):
            pairs = []
            for kv, t, opt in keyvals:
                r = rng.random()
                if r < 0.6:
                    pairs.append((kv, good[t]))
                elif r < 0.85:
                    pairs.append((kv, rng.choice(VALS)))
            for kv, t in special:
                r = rng.random()
                if r < 0.35:
                    pairs.append((kv, good[t]))
                elif r < 0.5:
                    pairs.append((kv, rng.choice(VALS)))
            if len({repr(a) for a, _ in pairs}) < len(pairs):
                continue
            rng.shuffle(pairs)
            # kf-c10-composite-key-before-present-key: an order is affected when a member keyed by an array or a map type
            # stands before a member one of whose keys is present in the document
            dockeys = [repr(a) for a, _ in pairs]
            affected = [any(p[i][1] and any(repr(kv) in dockeys for kv in p[j][2]) for i in range(len(p)) for j in range(i + 1, len(p))) for p in orders]
            out.append((texts, ("map", pairs), cbor_only, affected))
    return out


def run_c10(prop, prop_file, tier, seed):
    res = Result(prop, tier, seed)
    proved = common.prove(res, prop, prop_file, EXTRACT)
    drv = common.build_harness("c01")
    orc = common.build_oracle("sem", ["sem_model"])
    rng = random.Random(seed)
    n = (25000 if tier == "quick" else 100000) * (2 if not proved else 1)
    items, meta = [], []
    for i in range(n):
        cb = rng.random() < 0.5
        o = gen.Opts(cbor=cb, clean_maps=True, arrays=rng.random() < 0.4, depth=rng.choice([1, 2, 2]), ctl=False)
        S = gen.SchemaGen(rng, o).schema()
        root = S.rules[0][2]
        if root[0] != "map" and rng.random() < 0.7:
            S = Schema([("r0", "type", ("map", gen.SchemaGen(rng, o).mgroup(1)))] + S.rules[1:]) if False else S
        base_docs = docs_for(rng, S, cb, 3)
        # targeted near-misses for maps at the root: the empty map, and every single-member deletion of an inhabitant
        for d0 in list(base_docs[:1]):
            if d0[0] == "map":
                base_docs.append(("map", []))
                for j in range(min(len(d0[1]), 4)):
                    base_docs.append(("map", d0[1][:j] + d0[1][j + 1:]))
        for d in base_docs:
            if d[0] != "map" and not has_map(d, 1):
                continue
            d2 = permute_maps(rng, d)
            S2 = Schema([(nm, k, permute_members(rng, b)) for (nm, k, b) in S.rules])
            items += [(S.cddl(), d), (S.cddl(), d2), (S2.cddl(), d)]
            meta.append((S, S2, d, d2, cb))
    jv, cv = both_modes(drv, items, rng)
    # duplicate / equivalent keys in CBOR maps: compared with the model (every physical pair must be accounted for)
    dup_pairs = []
    for i in range(10000 if tier == "quick" else 30000):
        key = rng.choice([("txt", "a"), ("int", 1), ("txt", "k1")])
        vt_ = rng.choice([("ref", "int"), ("ref", "tstr"), ("ref", "any"), ("ref", "any")])
        members = ("ent", ("lit", key), True, vt_)
        r = rng.random()
        if r < 0.4:
            members = ("seq", members, ("occ", 0, None, ("ent", ("ref", rng.choice(["tstr", "int", "any"])), False, ("ref", "any"))))
        elif r < 0.7:
            members = ("seq", members, ("ent", ("ref", rng.choice(["tstr", "int"])), False, rng.choice([("ref", "int"), ("ref", "tstr")])))
        S = Schema([("r0", "type", ("map", members))])
        vals = [rng.choice([("int", 1), ("int", 2), ("txt", "x")]) for _ in range(rng.choice([2, 2, 3]))]
        pairs = [(key, v) for v in vals]
        if rng.random() < 0.4:
            pairs.append((("txt", "other"), ("int", 0)))
        rng.shuffle(pairs)
        dup_pairs.append((S, ("map", pairs)))
    dup_impl = runner.impl_cbor(drv, dup_pairs, rng)
    dup_impl_rev = runner.impl_cbor(drv, [(S, ("map", list(reversed(d[1])))) for S, d in dup_pairs], rng)
    dup_model = runner.model(orc, dup_pairs, False)
    hist, known_hits, nviol, evals, distinct = {}, {}, 0, 0, set()
    kfs = {"json": {k["id"]: k for k in common.known_findings("C01")}, "cbor": {k["id"]: k for k in common.known_findings("C02")}}
    for mi, (S, S2, d, d2, cb) in enumerate(meta):
        for mode, outs in (("json", jv), ("cbor", cv)):
            a, b, c = outs[3 * mi], outs[3 * mi + 1], outs[3 * mi + 2]
            if a is None or b is None or c is None:
                continue
            if mode == "json" and cb:
                continue        # schema uses CBOR-only constructs
            evals += 2
            hist[mode] = hist.get(mode, 0) + 2
            distinct.add((S.cddl(), ast.val_sexp(d), ast.val_sexp(d2)))
            for what, x, other in (("document entries permuted", b, ast.val_sexp(d2)), ("disjoint-key schema members permuted", c, S2.cddl())):
                if V(a) != V(x):
                    zs = {z for z in (zones.zones(S, d, mode) | zones.zones(S2, d, mode)) if z in kfs[mode]} & ORDER_ZONES
                    if zs:
                        kid = sorted(zs)[0]
                        known_hits[kid] = known_hits.get(kid, 0) + 1
                    else:
                        nviol += 1
                        if nviol <= 20:
                            res.violation("%s validator: verdict changes when %s: %s -> %s\n%sdocument %s\nvariant %s" % (mode, what, a[:80], x[:80], S.cddl(), ast.val_sexp(d), other),
                                          {"mode": mode, "what": what, "schema": S.cddl(), "schema2": S2.cddl(), "doc": ast.val_sexp(d), "doc2": ast.val_sexp(d2),
                                           "doc_cbor": ast.val_cbor(d).hex(), "doc2_cbor": ast.val_cbor(d2).hex(), "impl": [a, x]})
    # member-order independence outside the model fragment (enumeration keys, array and map keys)
    fam = c10_order_family(rng, 1000 if tier == "quick" else 6000)
    fitems = [(t, d) for texts, d, _, _ in fam for t in texts]
    fj, fc = both_modes(drv, fitems, rng)
    pos = 0
    kfc = {k["id"]: k for k in common.known_findings(prop)}
    for texts, d, cbor_only, affected in fam:
        k = len(texts)
        for mode, outs in (("json", fj), ("cbor", fc)):
            if mode == "json" and cbor_only:
                continue
            vs = [outs[pos + i] for i in range(k)]
            if any(x is None for x in vs) or any(V(x) == "E schema" for x in vs):
                continue
            evals += k
            hist["order-family/" + mode] = hist.get("order-family/" + mode, 0) + k
            if len({V(x) for x in vs}) > 1 and "kf-c10-composite-key-before-present-key" in kfc and any(affected):
                # compare the unaffected orders among themselves; a difference that involves an affected order is the known finding
                clean = [i for i in range(k) if not affected[i]]
                if len({V(vs[i]) for i in clean}) <= 1:
                    known_hits["kf-c10-composite-key-before-present-key"] = known_hits.get("kf-c10-composite-key-before-present-key", 0) + 1
                    res.known(kfc["kf-c10-composite-key-before-present-key"])
                    continue
                texts, vs = [texts[i] for i in clean], [vs[i] for i in clean]
            if len({V(x) for x in vs}) > 1:
                nviol += 1
                if nviol <= 20:
                    i0 = next(i for i in range(len(vs)) if V(vs[i]) != V(vs[0]))
                    res.violation("%s validator: verdict depends on the order of members with disjoint keys: %s gives %s, %s gives %s on %s" % (
                        mode, texts[0].strip(), vs[0][:60], texts[i0].strip(), vs[i0][:60], ast.val_sexp(d)),
                        {"mode": mode, "what": "member order (family)", "schemas": [texts[0], texts[i0]], "doc": ast.val_sexp(d),
                         "doc_json": ast.val_json(d) if ast.is_json_value(d) else None, "doc_cbor": ast.val_cbor(d).hex(), "impl": [vs[0], vs[i0]]})
        pos += k
    kf10 = {k["id"]: k for k in common.known_findings(prop)}
    for (S, d), a, a2 in zip(dup_pairs, dup_impl, dup_impl_rev):
        evals += 1
        if V(a) != V(a2):
            first = ast.flatten_seq(S.rules[0][2][1])[0]
            lit_val_any = first[0] == "ent" and first[3] == ("ref", "any")
            if not lit_val_any and "kf-c10-duplicate-keys-order-dependent" in kf10:
                known_hits["kf-c10-duplicate-keys-order-dependent"] = known_hits.get("kf-c10-duplicate-keys-order-dependent", 0) + 1
                continue
            nviol += 1
            if nviol <= 20:
                res.violation("cbor validator: verdict of a map with duplicate keys changes when its entries are reversed: %s -> %s\n%sdocument %s" % (a[:80], a2[:80], S.cddl(), ast.val_sexp(d)),
                              {"mode": "cbor", "what": "duplicate keys reversed", "schema": S.cddl(), "doc": ast.val_sexp(d), "doc_cbor": ast.val_cbor(d).hex(),
                               "doc2_cbor": ast.val_cbor(("map", list(reversed(d[1])))).hex(), "impl": [a, a2]})
    for (S, d), a, m in zip(dup_pairs, dup_impl, dup_model):
        evals += 1
        hist["cbor-duplicate-keys"] = hist.get("cbor-duplicate-keys", 0) + 1
        if m in ("T", "F") and V(a) != m:
            zs = {z for z in zones.zones(S, d, "cbor") if z in kfs["cbor"]}
            if zs:
                kid = sorted(zs)[0]
                known_hits[kid] = known_hits.get(kid, 0) + 1
            else:
                nviol += 1
                if nviol <= 20:
                    res.violation("cbor validator: map with duplicate keys %s against %s: implementation %s, every-pair-accounted semantics %s" % (ast.val_sexp(d), S.cddl().strip(), a[:80], m),
                                  {"mode": "cbor", "schema": S.cddl(), "doc_cbor": ast.val_cbor(d).hex(), "doc": ast.val_sexp(d), "impl": a, "model": m})
    if not proved and not res.violations:
        res.violation(res.proof_broken, {"kind": "proof-obligation", "detail": res.proof_broken}, no_input=True)
    res.coverage.update({
        "evaluations": evals, "distinct_nontrivial": len(distinct),
        "rule": "schemas with maps (literal-keyed members + optional wildcard) x documents containing a map with >= 2 entries: "
                "verdict(S,d) vs verdict(S, d with every map's entries shuffled) vs verdict(S with disjoint literal-keyed members shuffled, d), both validators "
                "(JSON text order, CBOR encoding order); plus CBOR maps with duplicate keys compared with the vmodel (no pair may be collapsed)",
        "histogram": hist, "known_finding_hits": known_hits,
        "samples": [{"schema": m[0].cddl(), "doc": ast.val_sexp(m[2]), "permuted": ast.val_sexp(m[3])} for m in meta[:5]],
    })
    res.assumptions = ["permutation invariance and no-collapse are theorems over Sem.v (Props/C10.v); the code side is sampled"]
    # the two map-shape findings are order-dependence defects: they are violations of C10 as well; replay their witnesses
    for kf in common.known_findings(prop):
        cases = kf["witness"]["cases"]
        bad = 0
        for c in cases:
            if c["mode"] == "json":
                o = runner.impl_json_text(drv, [(c["schema"], c["doc"]), (c.get("schema2", c["schema"]), c["doc2"])])
            else:
                o = runner.impl_cbor_bytes(drv, [(c["schema"], bytes.fromhex(c["doc"])), (c.get("schema2", c["schema"]), bytes.fromhex(c["doc2"]))])
            if V(o[0]) != V(o[1]):
                bad += 1
        if bad:
            res.known(kf)
        else:
            res.notes.append("finding %s apparently repaired" % kf["id"])
    return res.finish()


# ---------------------------------------------------------------------------
# C04: JSON validator vs CBOR validator on the same data
# ---------------------------------------------------------------------------

SHARED_EXTRAS = [
    # (schema text, list of documents) exercising the shared feature set beyond the model fragment
    ("r0 = [* p<int>]\np<x> = [x, x]\n", [("arr", [("arr", [("int", 1), ("int", 2)])]), ("arr", [("arr", [("int", 1), ("txt", "a")])]), ("arr", [])]),
    ("r0 = {a: $ext}\n$ext /= int\n$ext /= tstr\n", [("map", [(("txt", "a"), ("int", 1))]), ("map", [(("txt", "a"), ("txt", "x"))]), ("map", [(("txt", "a"), ("null",))])]),
    ("r0 = [~pair, tstr]\npair = [int, int]\n", [("arr", [("int", 1), ("int", 2), ("txt", "a")]), ("arr", [("arr", [("int", 1), ("int", 2)]), ("txt", "a")])]),
    ("r0 = &colors\ncolors = (red: 1, green: 2)\n", [("int", 1), ("int", 2), ("int", 3), ("txt", "red")]),
    ("r0 = tstr .regexp \"[a-c]+\"\n", [("txt", "abc"), ("txt", "abd"), ("txt", ""), ("int", 1)]),
    ("r0 = tstr .regexp \"a.c\"\n", [("txt", "abc"), ("txt", "xabcx"), ("txt", "ac")]),
    ("r0 = \"foo\" .cat \"bar\"\n", [("txt", "foobar"), ("txt", "foo"), ("txt", "foobarx")]),
    ("r0 = 1 .plus 2\n", [("int", 3), ("int", 2), ("txt", "3")]),
    ("r0 = {? a: int .default 5}\n", [("map", []), ("map", [(("txt", "a"), ("int", 5))]), ("map", [(("txt", "a"), ("txt", "x"))])]),
    ("r0 = int .within (0..10)\n", [("int", 5), ("int", 11), ("txt", "5")]),
    ("r0 = (int / tstr) .and (tstr / bool)\n", [("txt", "x"), ("int", 1), ("bool", True)]),
    ("r0 = 0..10 .ne 5\n" if False else "r0 = uint .ne 5\n", [("int", 5), ("int", 6), ("txt", "5")]),
    ("r0 = [2*3 int]\n", [("arr", [("int", 1)]), ("arr", [("int", 1), ("int", 2)]), ("arr", [("int", 1)] * 4)]),
    ("r0 = {* tstr => int}\n", [("map", []), ("map", [(("txt", "a"), ("int", 1)), (("txt", "b"), ("int", 2))]), ("map", [(("txt", "a"), ("txt", "x"))])]),
]


def extras_cases(rng, n):
    """(schema text, document) pairs over the shared features that the model does not cover: & enumerations whose members carry
    controls, .regexp, .cat / .det with literal, choice and named controllers, .plus, .default, ~unwrap - at the top level, inside
    arrays (several elements, so that what one member leaves behind meets the next) and inside maps. Only the JSON/CBOR
    agreement is observable here (seeded C04-3: a control left in force after a rejected & member; C04-4: errors of an
    earlier .cat candidate kept)."""
    out = []
    TXT = ["abc", "ABC", "", "a", "foo", "fooa", "foob", "fooc", "v1", "v2", "id-user", "id-group", "x y", "5"]
    NUM = [0, 1, 2, 5, 10, 11, 255, 300, -1]

    def wrap(T, extra, vals):
        form = rng.choice(["top", "arr", "map", "arr2"])
        if form == "top":
            return "r0 = %s\n%s" % (T, extra), list(vals)
        if form == "arr":
            docs = [("arr", [v]) for v in vals] + [("arr", rng.sample(vals, min(len(vals), 3))) for _ in range(3)] + [("arr", [])]
            return "r0 = [* %s]\n%s" % (T, extra), docs
        if form == "arr2":
            docs = [("arr", [v, w]) for v in vals[:4] for w in vals[:4]]
            return "r0 = [%s, %s]\n%s" % (T, T, extra), docs
        docs = [("map", [(("txt", "level"), v)]) for v in vals] + [("map", [(("txt", "level"), vals[0]), (("txt", "more"), ("arr", rng.sample(vals, min(len(vals), 3))))])]
        return "r0 = {level: %s, ? more: [* %s]}\n%s" % (T, T, extra), docs

    for i in range(n):
        k = rng.choice(["enum", "enum", "cat", "cat", "plus", "default", "unwrap", "regexp"])
        if k == "enum":
            pool = ["%s: %d" % (nm, rng.choice(NUM)) for nm in ("one", "two", "three")] + ["nm: \"%s\"" % rng.choice(TXT[:6])] + \
                   ["name: tstr .regexp \"%s\"" % rng.choice(["[a-z]+", "[A-Z]+", "a.c", "fo+[abc]?"]), "big: int .gt %d" % rng.choice([1, 10, 100]),
                    "small: uint .size 1", "flag: bool", "lo: int .lt 0", "word: tstr .size %d" % rng.choice([1, 3])]
            ms = rng.sample(pool, rng.choice([2, 3, 4]))
            if rng.random() < 0.5:
                T, extra = "&ch", "ch = (%s)\n" % ", ".join(ms)
            else:
                T, extra = "&(%s)" % ", ".join(ms), ""
            vals = [("int", x) for x in rng.sample(NUM, 5)] + [("txt", x) for x in rng.sample(TXT, 4)] + [("bool", True), ("null",)]
        elif k == "cat":
            a = rng.choice(["foo", "v", "id-", ""])
            alts = rng.sample(["a", "b", "c", "1", "2", "user", "group", ""], rng.choice([1, 2, 3]))
            op = rng.choice(["cat", "cat", "det"])
            form = rng.choice(["inline", "named"]) if len(alts) > 1 else "lit"
            if form == "lit":
                T, extra = "\"%s\" .%s \"%s\"" % (a, op, alts[0]), ""
            elif form == "inline":
                T, extra = "\"%s\" .%s (%s)" % (a, op, " / ".join("\"%s\"" % x for x in alts)), ""
            else:
                T, extra = "\"%s\" .%s kind" % (a, op), "kind = %s\n" % " / ".join("\"%s\"" % x for x in alts)
            vals = [("txt", a + x) for x in alts] + [("txt", a), ("txt", a + "zz"), ("txt", "zz"), ("int", 1)]
        elif k == "plus":
            a, bs = rng.choice(NUM), rng.sample(NUM, rng.choice([1, 2]))
            if len(bs) == 1:
                T, extra = "%d .plus %d" % (a, bs[0]), ""
            else:
                T, extra = "%d .plus inc" % a, "inc = %s\n" % " / ".join(str(b) for b in bs)
            vals = [("int", a + b) for b in bs] + [("int", a), ("int", a + 1000), ("txt", "3")]
        elif k == "default":
            t, dv = rng.choice([("int", "5"), ("tstr", "\"x\""), ("bool", "true"), ("uint", "0")])
            text = "r0 = {? a: %s .default %s, ? b: tstr}\n" % (t, dv)
            docs = [("map", []), ("map", [(("txt", "a"), ("int", 5))]), ("map", [(("txt", "a"), ("txt", "x"))]), ("map", [(("txt", "a"), ("bool", True))]),
                    ("map", [(("txt", "b"), ("txt", "y"))]), ("map", [(("txt", "a"), ("int", 0)), (("txt", "b"), ("txt", "y"))]), ("map", [(("txt", "a"), ("null",))])]
            for d in docs:
                out.append((text, d))
            continue
        elif k == "unwrap":
            t1, t2, t3 = (rng.choice(["int", "tstr", "bool"]) for _ in range(3))
            cand = [("int", 1), ("txt", "a"), ("bool", True)]
            if rng.random() < 0.5:
                text = "r0 = [~pair, %s]\npair = [%s, %s]\n" % (t3, t1, t2)
            else:
                # the unwrapped rule is a CHOICE of array types: every alternative must be tried when it is spliced in (seeded C04-5)
                t4 = rng.choice(["int", "tstr", "bool"])
                alts = ["[%s]" % t4, "[%s, %s]" % (t1, t2)]
                rng.shuffle(alts)
                form = rng.choice(["plain", "occ", "key"])
                if form == "plain":
                    text = "r0 = [~hd, %s]\nhd = %s\n" % (t3, " / ".join(alts))
                elif form == "occ":
                    text = "r0 = {log: [* ~hd]}\nhd = %s\n" % " / ".join(alts)
                else:
                    text = "r0 = [bool, body: ~hd]\nhd = %s\n" % " / ".join(alts)
                for x in cand:
                    for y in cand:
                        docs = [("arr", [x, y]), ("arr", [x, y, cand[0]]), ("arr", [("bool", True), x]), ("arr", [("bool", True), x, y])]
                        if form == "occ":
                            docs = [("map", [(("txt", "log"), d)]) for d in docs] + [("map", [(("txt", "log"), ("arr", [x, x, y, x]))])]
                        for d in docs:
                            out.append((text, d))
                continue
            for x in cand:
                for y in cand[:2]:
                    for z in cand:
                        out.append((text, ("arr", [x, y, z])))
            out.append((text, ("arr", [("arr", [("int", 1), ("int", 2)]), ("int", 3)])))
            continue
        else:
            pat = rng.choice(["[a-c]+", "a.c", "^v[0-9]$", "(foo|bar)+", "[A-Z][a-z]*", "x?y*", ".*"])
            T, extra = "tstr .regexp \"%s\"" % pat, ""
            vals = [("txt", x) for x in rng.sample(TXT, 6)] + [("txt", "xabcx"), ("txt", "foobar"), ("int", 1)]
        text, docs = wrap(T, extra, vals)
        for d in docs:
            out.append((text, d))
    return out


def run_c04(prop, prop_file, tier, seed):
    res = Result(prop, tier, seed)
    proved = common.prove(res, prop, prop_file, EXTRACT)
    drv = common.build_harness("c01")
    rng = random.Random(seed)
    n = (30000 if tier == "quick" else 120000) * (2 if not proved else 1)
    items, meta = [], []
    for text, docs in SHARED_EXTRAS:
        for d in docs:
            items.append((text, d))
            meta.append(("shared-extra", None, text, d))
    for text, d in extras_cases(rng, 2500 if tier == "quick" else 12000):
        items.append((text, d))
        meta.append(("shared-extra-generated", None, text, d))
    for i in range(n):
        o = gen.Opts(cbor=False, clean_maps=rng.random() < 0.85, depth=rng.choice([1, 2, 2, 3]), andwithin=True)
        S = gen.SchemaGen(rng, o).schema()
        text = S.cddl()
        r = refactor(rng, S) if rng.random() < 0.3 else None
        if r is not None and r[0] in ("generic", "socket", "incr-choice", "parens"):
            text = r[1]
        for d in docs_for(rng, S, False, 3):
            if not ast.is_json_value(d):
                continue
            items.append((text, d))
            meta.append(("generated", S, text, d))
    jv, cv = both_modes(drv, items, None)
    hist, known_hits, nviol, evals, distinct = {}, {}, 0, 0, set()
    kf1 = {k["id"]: k for k in common.known_findings("C01")}
    kf2 = {k["id"]: k for k in common.known_findings("C02")}
    kf4 = {k["id"]: k for k in common.known_findings(prop)}
    # replay C04's own witnesses
    for kf in kf4.values():
        bad = 0
        for c in kf["witness"]["cases"]:
            a = runner.impl_json_text(drv, [(c["schema"], c["doc"])])[0]
            b = runner.impl_cbor_bytes(drv, [(c["schema"], bytes.fromhex(c["doc_cbor"]))])[0]
            if V(a) != V(b):
                bad += 1
        if bad:
            res.known(kf)
        else:
            res.notes.append("finding %s apparently repaired" % kf["id"])
    for (cls, S, text, d), a, b in zip(meta, jv, cv):
        if a is None:
            continue
        evals += 1
        key = "%s:%s/%s" % (cls, V(a), V(b))
        hist[key] = hist.get(key, 0) + 1
        distinct.add((text, ast.val_sexp(d)))
        if V(a) != V(b):
            zs = set()
            if S is not None:
                kf9 = {k["id"] for k in common.known_findings("C09")}
                zs = {z for z in zones.zones(S, d, "json") if z in kf1 or z in kf9} | {z for z in zones.zones(S, d, "cbor") if z in kf2 or z in kf9}
                # integers where a float is expected: the two data models genuinely differ (JSON 2 is also 2.0)
                if not zs and any(t[0] == "float" or (t[0] == "ref" and t[1] in ("float", "float16", "float32", "float64")) for t, _ in zones.all_types(S)) \
                        and any(x[0] == "int" for x in zones.doc_values(d)):
                    hist["int-vs-float-skipped"] = hist.get("int-vs-float-skipped", 0) + 1
                    continue
            if zs:
                kid = sorted(zs)[0]
                known_hits[kid] = known_hits.get(kid, 0) + 1
            else:
                nviol += 1
                if nviol <= 20:
                    res.violation("JSON validator %s but CBOR validator %s on %s against\n%s" % (a[:90], b[:90], ast.val_json(d), text),
                                  {"schema": text, "doc_json": ast.val_json(d), "doc_cbor": ast.val_cbor(d).hex(), "impl_json": a, "impl_cbor": b})
    if not proved and not res.violations:
        res.violation(res.proof_broken, {"kind": "proof-obligation", "detail": res.proof_broken}, no_input=True)
    res.coverage.update({
        "evaluations": evals, "distinct_nontrivial": len(distinct),
        "rule": "schemas of the shared feature set (core fragment + .and/.within; 30% rewritten with generics, sockets, '/=' increments, parentheses; plus a fixed list using "
                "~unwrap, &group-to-choice, .regexp, .cat, .plus, .default) x JSON-model values: validate_json_from_str(S, text(v)) vs validate_cbor_from_slice(S, cbor(v))",
        "verdict_pair_histogram": hist, "known_finding_hits": known_hits,
        "samples": [{"schema": m[2], "doc": ast.val_json(m[3])} for m in meta[:6]],
    })
    res.assumptions = ["on the modelled fragment the common verdict is the RFC one (C01/C02); outside it (regexp, .cat, .plus, .default) only the disagreement is observable"]
    return res.finish()
