"""Run (schema, value) pairs on the real validators and on the extracted Sem oracle."""
from .. import common
from . import ast


def hexs(s):
    return s.encode("utf-8", "surrogatepass").hex()


def impl_json(drv, pairs):
    """pairs: list of (Schema, value). returns list of 'T' | 'F ...' | 'E ...' """
    return common.run_tool(drv, ["J\t%s\t%s" % (hexs(S.cddl()), hexs(ast.val_json(v))) for S, v in pairs])


def impl_cbor(drv, pairs, rng=None):
    return common.run_tool(drv, ["C\t%s\t%s" % (hexs(S.cddl()), ast.val_cbor(v, rng).hex()) for S, v in pairs])


def impl_json_text(drv, items):
    """items: list of (cddl text, json text)"""
    return common.run_tool(drv, ["J\t%s\t%s" % (hexs(c), hexs(j)) for c, j in items])


def impl_cbor_bytes(drv, items):
    return common.run_tool(drv, ["C\t%s\t%s" % (hexs(c), b.hex()) for c, b in items])


def model(orc, pairs, jm):
    """jm: JSON mode (integers also count as floats)"""
    return common.run_tool(orc, ["V\t%d\t%s\t%s" % (1 if jm else 0, S.sexp(), ast.val_sexp(v)) for S, v in pairs])


def verdict_of(line):
    return line[:1] if line[:1] in ("T", "F") else line.split(":")[0]
