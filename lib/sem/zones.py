"""Classifiers of the open known findings of the validators (C01 JSON, C02 CBOR).

A disagreement between the implementation and the RFC semantics (Sem, decided by the extracted vmodel)
is reported as KNOWN-FINDING only when one of these NARROW syntactic predicates holds on the
(schema, document) pair; every other disagreement is a VIOLATION. Each predicate names the construct
(and the document feature) the defect needs in order to manifest."""
from .ast import PRELUDE

STRING_NUMERIC = {"tstr", "text", "uint", "nint", "int", "float", "float16", "float32", "float64", "number"}


def walk_types(t, f, in_key=False):
    """calls f(type, in_key) on every type node"""
    f(t, in_key)
    k = t[0]
    if k == "paren":
        walk_types(t[1], f, in_key)
    elif k == "tag":
        walk_types(t[2], f)
    elif k == "or":
        walk_types(t[1], f, in_key)
        walk_types(t[2], f, in_key)
    elif k == "ctl":
        walk_types(t[2], f, in_key)
        walk_types(t[3], f, in_key)
    elif k in ("arr", "map"):
        walk_groups(t[1], lambda g: None, f)


def walk_groups(g, fg, ft):
    fg(g)
    k = g[0]
    if k in ("seq", "gor"):
        walk_groups(g[1], fg, ft)
        walk_groups(g[2], fg, ft)
    elif k == "occ":
        walk_groups(g[3], fg, ft)
    elif k == "ent":
        if g[1] is not None:
            walk_types(g[1], ft, True)
        walk_types(g[3], ft)


def all_types(S):
    out = []
    for (_, kind, b) in S.rules:
        if kind == "type":
            walk_types(b, lambda t, ik: out.append((t, ik)))
        else:
            walk_groups(b, lambda g: None, lambda t, ik: out.append((t, ik)))
    return out


def all_map_groups(S):
    out = []

    def ft(t, ik):
        if t[0] == "map":
            out.append(t[1])
    for (_, kind, b) in S.rules:
        if kind == "type":
            walk_types(b, ft)
        else:
            walk_groups(b, lambda g: None, ft)
    return out


def doc_values(v, out=None):
    out = [] if out is None else out
    out.append(v)
    if v[0] == "arr":
        for x in v[1]:
            doc_values(x, out)
    elif v[0] == "map":
        for a, b in v[1]:
            doc_values(a, out)
            doc_values(b, out)
    elif v[0] == "tag":
        doc_values(v[2], out)
    return out


def num_class(v):
    if v[0] == "int":
        return "U" if v[1] >= 0 else "I"
    if v[0] == "flt":
        return "F"
    return None


def flat_members(S, g, depth=0):
    """list of alternatives, each a list of ('ent'|'occ'...) members, group references expanded"""
    k = g[0]
    if depth > 6:
        return [[]]
    if k == "empty":
        return [[]]
    if k == "seq":
        return [a + b for a in flat_members(S, g[1], depth) for b in flat_members(S, g[2], depth)]
    if k == "gor":
        return flat_members(S, g[1], depth) + flat_members(S, g[2], depth)
    if k == "gref":
        b = S.body(g[1])
        return flat_members(S, b, depth + 1) if b is not None else [[]]
    return [[g]]


def member_parts(m):
    """(lo, hi, key, cut, val, explicit_nm) of a map member"""
    if m[0] == "occ":
        e = m[3]
        lo, hi = m[1], m[2]
        nm = (lo, hi) not in ((0, 1), (0, None), (1, None))
    else:
        e, lo, hi, nm = m, 1, 1, False
    if e[0] != "ent":
        return None
    return lo, hi, e[1], e[2], e[3], nm


def is_lit_key(key):
    return key is not None and key[0] == "lit"


SIMPLE_KEY_TYPES = {"tstr", "text", "uint", "int", "nint", "bstr", "bytes", "any", "float", "float16", "float32", "float64"}


def key_class(key):
    """coarse key domain of a member: ('lit', kind, value) or ('ty', class) with class in T(ext) I(nt) B(ytes) A(ny)"""
    if key is None:
        return ("ty", "A")
    if key[0] == "lit":
        return ("lit", key[1][0], key[1][1])
    if key[0] == "ref":
        return ("ty", {"tstr": "T", "text": "T", "uint": "I", "int": "I", "nint": "I", "bstr": "B", "bytes": "B",
                       "float": "F", "float16": "F", "float32": "F", "float64": "F"}.get(key[1], "A"))
    return ("ty", "A")


def classes_overlap(a, b):
    if a[0] == "lit" and b[0] == "lit":
        return a == b
    if a[0] == "lit":
        a, b = b, a
    if a[0] == "ty" and b[0] == "lit":
        return a[1] == "A" or a[1] == {"txt": "T", "int": "I", "byt": "B", "flt": "F"}.get(b[1])
    return a[1] == "A" or b[1] == "A" or a[1] == b[1]


def map_shape_clean(S, g, docvals=None):
    """the member-list shape both validators handle: literal-keyed members (occurrence none or ?) and table members
    `* <prelude name> => t` / `+ <prelude name> => t`; a wildcard member may only be followed by members whose keys it cannot match
    (so at most one wildcard per key class, and a text wildcard comes after the text-keyed members); no group choice"""
    def has_gor(x, d=0):
        if x[0] == "gor":
            return True
        if x[0] == "seq":
            return has_gor(x[1], d) or has_gor(x[2], d)
        if x[0] == "occ":
            return has_gor(x[3], d)
        if x[0] == "gref" and d < 6:
            b = S.body(x[1])
            return b is not None and has_gor(b, d + 1)
        return False
    alts = flat_members(S, g)
    if has_gor(g):
        # a group choice is inside the shape when each alternative is a list of REQUIRED literal-keyed members
        # (after 721554e both validators try the alternatives from the same state) and the map has no wildcard member
        if not gor_clean(S, g):
            return False
        for ms in alts:
            for m in ms:
                p = member_parts(m)
                if p is None or not is_lit_key(p[2]):
                    return False
    for ms in alts:
        wild_seen = []
        lit_seen = set()
        for m in ms:
            p = member_parts(m)
            if p is None:
                return False
            lo, hi, key, cut, val, nm = p
            kc = key_class(key)
            if kc[0] == "lit":
                if kc in lit_seen:
                    return False          # two members with the same literal key
                lit_seen.add(kc)
            if any(classes_overlap(w, kc) for w in wild_seen):
                # a literal-keyed member after a wildcard that could take its key: the validators hand the pair to the wildcard.
                # Measured (6 290 + 6 295 pairs, no disagreement): when no map of the document has that key the shape is inside.
                if not (docvals is not None and kc[0] == "lit" and
                        not any(d[0] == "map" and any(a[0] == kc[1] and a[1] == kc[2] for a, _ in d[1]) for d in docvals)):
                    return False
            if is_lit_key(key):
                if lo > 1 or (hi is not None and hi > 1):
                    return False
            else:
                if (lo, hi) not in ((0, None), (1, None)):
                    return False          # a wildcard member must be a table: occurrence * or +
                if key is None or key[0] != "ref" or key[1] not in SIMPLE_KEY_TYPES:
                    return False
                wild_seen.append(kc)
    return True


def gor_clean(S, g, depth=0):
    """every '//' in the map group joins sequences of plain literal-keyed entries without occurrence"""
    def plain(x):
        if x[0] == "seq":
            return plain(x[1]) and plain(x[2])
        return x[0] == "ent" and is_lit_key(x[1])
    def keys(x):
        if x[0] == "seq":
            return keys(x[1]) | keys(x[2])
        return {repr(x[1])}
    k = g[0]
    if k == "gor":
        # ... and the alternatives name different keys: with a shared key the validators commit to the first alternative
        # whose members match and do not retry (part of the map-member-shape finding)
        return plain(g[1]) and plain(g[2]) and not (keys(g[1]) & keys(g[2]))
    if k == "seq":
        return gor_clean(S, g[1], depth) and gor_clean(S, g[2], depth)
    if k == "occ":
        return gor_clean(S, g[3], depth)
    if k == "gref" and depth < 6:
        b = S.body(g[1])
        return b is not None and gor_clean(S, b, depth + 1)
    return True


def arrow_nocut_plus_zone(S, g, docvals):
    """CBOR: a literal key written with '=>' (no cut), a LATER table member over the key's class that needs at least one pair
    (occurrence lower bound >= 1), and a document map that has that key: the pair is handed to the literal member although the
    table needs it"""
    for ms in flat_members(S, g):
        for i, m in enumerate(ms):
            p = member_parts(m)
            if p is None:
                continue
            lo, hi, key, cut, val, nm = p
            if is_lit_key(key) and not cut:
                for x in ms[i + 1:]:
                    q = member_parts(x)
                    if q is not None and not is_lit_key(q[2]) and q[0] >= 1 and classes_overlap(key_class(q[2]), key_class(key)):
                        kv = key[1]
                        for d in docvals:
                            if d[0] == "map" and any(a[0] == kv[0] and a[1] == kv[1] for a, _ in d[1]):
                                return True
    return False


def arrow_nocut_zone(S, g, docvals):
    """a literal key written with '=>' (no cut) followed by a wildcard member, and a document map that has that key"""
    for ms in flat_members(S, g):
        for i, m in enumerate(ms):
            p = member_parts(m)
            if p is None:
                continue
            lo, hi, key, cut, val, nm = p
            if is_lit_key(key) and not cut:
                later_wild = any((member_parts(x) is not None and (not is_lit_key(member_parts(x)[2]) or member_parts(x)[2] == key)) for x in ms[i + 1:])
                if later_wild:
                    kv = key[1]
                    for d in docvals:
                        if d[0] == "map" and any(a[0] == kv[0] and a[1] == kv[1] for a, _ in d[1]):
                            return True
    return False


def contains_map(S, t, depth=0):
    """does the type (following rule references) contain a map type"""
    found = []

    def f(x, ik):
        if x[0] == "map":
            found.append(1)
        if x[0] == "ref" and depth < 4:
            b = S.body(x[1])
            if b is not None and S.kind(x[1]) == "type" and contains_map(S, b, depth + 1):
                found.append(1)
    walk_types(t, f)
    return bool(found)


def zones(S, v, mode):
    """set of known-finding ids whose classifier holds on (S, v); mode 'json' | 'cbor'"""
    z = set()
    types = all_types(S)
    docvals = doc_values(v)
    doc_classes = {num_class(d) for d in docvals} - {None}
    P = "c01" if mode == "json" else "c02"
    if mode == "json" and any(d[0] == "int" and d[1] >= (1 << 63) for d in docvals):
        z.add("kf-c01-int-above-i64")
    for t, in_key in types:
        k = t[0]
        if k == "ctl" and t[1] in ("lt", "le", "gt", "ge", "eq", "ne") and t[3][0] == "lit" and t[3][1][0] in ("int", "flt"):
            lc = num_class(t[3][1])
            if mode == "json":
                # UINT literal needs as_u64, INT literal needs as_i64, FLOAT literal compares as f64
                if (lc == "U" and doc_classes & {"I", "F"}) or (lc == "I" and "F" in doc_classes):
                    z.add("kf-%s-cmp-numeric-class" % P)
            else:
                if (lc in ("U", "I") and "F" in doc_classes) or (lc == "F" and doc_classes & {"U", "I"}):
                    z.add("kf-%s-cmp-numeric-class" % P)
        if k == "ctl" and t[1] in ("and", "within") and contains_map(S, t[2]) and contains_map(S, t[3]):
            z.add("kf-c09-and-within-map-operands")
        if k == "ctl" and t[1] in ("eq", "ne"):
            tgt = t[2]
            if not (tgt[0] == "ref" and tgt[1] in STRING_NUMERIC):
                z.add("kf-%s-eqne-target" % P)
        if mode == "json":
            if k == "range" and t[1] < 0 <= t[2]:
                z.add("kf-c01-range-mixed-sign")
            if k == "lit" and t[1][0] == "txt" and not in_key and any(d[0] == "map" for d in docvals):
                z.add("kf-c01-text-literal-vs-object")
        else:
            if k == "major" and t[1] == 6:
                z.add("kf-c02-any-tag")
            if (k == "simple" and t[1] in (22, 23)) or (k == "ref" and t[1] in ("undefined", "nil", "null", "any")) or k == "any" or (k == "major" and t[1] == 7):
                if any(d[0] == "undef" for d in docvals):
                    z.add("kf-c02-undefined-is-null")
            if k == "ref" and t[1] in PRELUDE and t[1] != "any" and any(d[0] == "tag" and d[1] not in (0, 1) for d in docvals):
                z.add("kf-c02-tag-vs-name")
    if mode == "cbor":
        dup = any(d[0] == "map" and len({repr(a) for a, _ in d[1]}) < len(d[1]) for d in docvals)
        if dup:
            for g in all_map_groups(S):
                for ms in flat_members(S, g):
                    ps = [member_parts(m) for m in ms]
                    if any(p is not None and is_lit_key(p[2]) and p[3] for p in ps) and any(p is not None and not is_lit_key(p[2]) for p in ps):
                        z.add("kf-c02-duplicate-key-bypasses-cut")
    for g in all_map_groups(S):
        if not map_shape_clean(S, g, docvals):
            z.add("kf-%s-map-member-shape" % P)
        elif mode == "json" and arrow_nocut_zone(S, g, docvals):
            z.add("kf-c01-arrow-key-acts-as-cut")
        elif mode == "cbor" and arrow_nocut_plus_zone(S, g, docvals):
            z.add("kf-c02-arrow-key-claimed-before-required-table")
    return z


def eqne_number_class_grey(S, v):
    """.eq/.ne between numbers of different classes with the same value (2 against 2.0): RFC 8610 does not say whether the
    comparison is by value or by data item; the model compares data items, the validators compare by value. Not decided."""
    lits = set()
    for t, _ in all_types(S):
        if t[0] == "ctl" and t[1] in ("eq", "ne") and t[3][0] == "lit" and t[3][1][0] in ("int", "flt"):
            k, x = t[3][1]
            lits.add(("int", 4 * x) if k == "int" else ("flt", x))
    for d in doc_values(v):
        if d[0] == "int" and ("flt", 4 * d[1]) in lits:
            return True
        if d[0] == "flt" and ("int", d[1]) in lits:
            return True
    return False


def in_clean_fragment(S, mode):
    """schema-only part of the classifiers: no zone can apply whatever the document (used for generator statistics)"""
    P = "c01" if mode == "json" else "c02"
    if mode == "cbor":
        dup = any(d[0] == "map" and len({repr(a) for a, _ in d[1]}) < len(d[1]) for d in docvals)
        if dup:
            for g in all_map_groups(S):
                for ms in flat_members(S, g):
                    ps = [member_parts(m) for m in ms]
                    if any(p is not None and is_lit_key(p[2]) and p[3] for p in ps) and any(p is not None and not is_lit_key(p[2]) for p in ps):
                        z.add("kf-c02-duplicate-key-bypasses-cut")
    for g in all_map_groups(S):
        if not map_shape_clean(S, g):
            return False
    return True
