"""Shared machinery for the /verif checks (see DESIGN.md section 2).

Every check is `./check <ID> --tier quick|thorough`; the per-property logic lives in
lib/props/<id>.py and uses the helpers here to
  * regenerate translated Coq sources and (re)build the property's Coq target,
  * audit the development (forbidden vernacular, Print Assumptions, pinned statements),
  * build the Rust harness against /repo's working tree and the extracted OCaml oracle,
  * run both on the same case lines, classify disagreements, write evidence.
"""
import fcntl, hashlib, json, os, re, subprocess, sys, time
from concurrent.futures import ThreadPoolExecutor

VERIF = os.path.dirname(os.path.dirname(os.path.abspath(__file__)))
REPO = os.environ.get("VERIF_REPO", "/repo")
CACHE = os.environ.get("VERIF_CACHE", os.path.join(VERIF, ".cache"))
COQ = os.path.join(VERIF, "coq")
TARGET = os.path.join(CACHE, "target")
ORACLE_BUILD = os.path.join(CACHE, "oracle")
NPROC = 16

KERNEL_TB = [
    "Coq 8.16.1 kernel (coqc, full .vo builds; vm_compute used; no native_compute)",
    "hand-written Gallina model tied to /repo by the correspondence run of this check",
    "extraction: ExtrOcamlBasic only (bool, option, unit, list, prod, sumbool, sumor); N/Z/positive stay Coq inductives; OCaml 4.13.1",
    "Rust driver /verif/harness (rendering of values, catch_unwind) and this Python harness (generation, diffing)",
]

FORBIDDEN = re.compile(
    r"\b(Admitted|admit|Axiom|Axioms|Parameter|Parameters|Conjecture|Conjectures|Admit Obligations|"
    r"Unset Guard Checking|Unset Positivity Checking|Unset Universe Checking|bypass_check|"
    r"type-in-type|impredicative-set|native_compute)\b")

os.makedirs(CACHE, exist_ok=True)


class Lock:
    def __init__(self, name):
        self.path = os.path.join(CACHE, name + ".lock")

    def __enter__(self):
        self.f = open(self.path, "w")
        fcntl.flock(self.f, fcntl.LOCK_EX)
        return self

    def __exit__(self, *a):
        fcntl.flock(self.f, fcntl.LOCK_UN)
        self.f.close()


def sh(cmd, cwd=None, timeout=None, env=None, input=None):
    e = dict(os.environ)
    e["CARGO_NET_OFFLINE"] = "true"
    if env:
        e.update(env)
    p = subprocess.run(cmd, cwd=cwd, shell=isinstance(cmd, str), stdout=subprocess.PIPE,
                       stderr=subprocess.STDOUT, timeout=timeout, env=e, input=input, text=True)
    return p.returncode, p.stdout


def write_if_changed(path, content):
    try:
        if open(path).read() == content:
            return False
    except FileNotFoundError:
        pass
    os.makedirs(os.path.dirname(path), exist_ok=True)
    with open(path, "w") as f:
        f.write(content)
    return True


# ---------------------------------------------------------------------------
# Coq
# ---------------------------------------------------------------------------

def coq_sources():
    out = []
    for root, _, files in os.walk(os.path.join(COQ, "theories")):
        for f in files:
            if f.endswith(".v") and not f.startswith("Tmp_"):
                out.append(os.path.relpath(os.path.join(root, f), COQ))
    return sorted(out)


def run_generators():
    """Translators: regenerate theories/Generated/*.v from /repo's working tree.
    A translator names its output in a line `# OUTPUT: <File.v>`; when it fails, that file is removed so
    that exactly the theorems depending on it break (never a stale table)."""
    gen = os.path.join(VERIF, "gen")
    outdir = os.path.join(COQ, "theories", "Generated")
    msgs = []
    if os.path.isdir(gen):
        for f in sorted(os.listdir(gen)):
            if f.endswith(".py") and not f.startswith("_"):
                path = os.path.join(gen, f)
                rc, out = sh([sys.executable, path, REPO, outdir], timeout=300)
                if rc != 0:
                    msgs.append("translator %s failed: %s" % (f, out[-500:]))
                    for m in re.finditer(r"#\s*OUTPUT:\s*(\S+)", open(path).read()):
                        try:
                            os.remove(os.path.join(outdir, m.group(1)))
                        except FileNotFoundError:
                            pass
    return msgs


def coq_build(targets, timeout=1500):
    """make the given .vo targets (paths relative to coq/). Returns (ok, log)."""
    with Lock("coq"):
        gen_msgs = run_generators()
        srcs = coq_sources()
        listing = "\n".join(srcs) + "\n"
        changed = write_if_changed(os.path.join(CACHE, "cq_sources.txt"), listing)
        if changed or not os.path.exists(os.path.join(COQ, "Makefile")):
            try:
                os.remove(os.path.join(COQ, ".Makefile.d"))
            except FileNotFoundError:
                pass
            rc, out = sh(["coq_makefile", "-f", "_CoqProject", "-o", "Makefile"] + srcs, cwd=COQ, timeout=120)
            if rc != 0:
                return False, "coq_makefile failed:\n" + out
        os.makedirs(os.path.join(VERIF, "oracle", "gen"), exist_ok=True)
        rc, out = sh(["timeout", str(timeout), "make", "-j%d" % NPROC] + targets, cwd=COQ, timeout=timeout + 30)
        log = "\n".join(gen_msgs) + out
        return rc == 0, log


def failing_coq_item(log):
    m = re.search(r'File "\./([^"]+)", line (\d+)', log)
    if m:
        return "%s:%s" % (m.group(1), m.group(2))
    m = re.search(r"translator (\S+) failed", log)
    if m:
        return "translator " + m.group(1)
    return "unknown"


def dep_closure(roots):
    """.v files (relative to coq/) reachable from `roots` through `From Cddl Require ... X.Y` lines."""
    seen, todo = [], list(roots)
    while todo:
        rel = todo.pop()
        if rel in seen or not os.path.exists(os.path.join(COQ, rel)):
            continue
        seen.append(rel)
        txt = open(os.path.join(COQ, rel)).read()
        for m in re.finditer(r"From\s+Cddl\s+Require\s+(?:Import\s+|Export\s+)?(.*?)\.(?:\s|$)", txt, flags=re.S):
            for mod in m.group(1).split():
                todo.append("theories/" + mod.replace(".", "/") + ".v")
        for m in re.finditer(r"(?<!Cddl )Require\s+(?:Import\s+|Export\s+)?(.*?)\.(?:\s|$)", txt, flags=re.S):
            for mod in m.group(1).split():
                if mod.startswith("Cddl."):
                    todo.append("theories/" + mod[len("Cddl."):].replace(".", "/") + ".v")
    return sorted(seen)


def scan_forbidden(files=None):
    bad = []
    for rel in (files if files is not None else coq_sources()):
        txt = open(os.path.join(COQ, rel)).read()
        # strip comments (innermost first, repeated: handles nesting)
        prev = None
        while prev != txt:
            prev = txt
            txt = re.sub(r"\(\*(?:(?!\(\*|\*\)).)*?\*\)", lambda m: "\n" * m.group(0).count("\n"), txt, flags=re.S)
        for i, line in enumerate(txt.split("\n")):
            if FORBIDDEN.search(line):
                bad.append("%s:%d: %s" % (rel, i + 1, line.strip()[:100]))
    return bad


ALLOWED_AXIOMS = {
    # none needed so far; names of standard-library axioms may be added here, per DESIGN.md 4
}


def props_theorems(prop_file):
    txt = open(os.path.join(COQ, prop_file)).read()
    return re.findall(r"^(?:Theorem|Corollary)\s+([A-Za-z0-9_']+)", txt, flags=re.M)


def statement_hashes(prop_file):
    txt = open(os.path.join(COQ, prop_file)).read()
    out = {}
    for m in re.finditer(r"^(?:Theorem|Corollary)\s+([A-Za-z0-9_']+)\s*(.*?)\.\s*Proof\.", txt, flags=re.M | re.S):
        norm = re.sub(r"\s+", " ", m.group(2)).strip()
        out[m.group(1)] = hashlib.sha256(norm.encode()).hexdigest()[:16]
    return out


def audit(prop_id, prop_file, extra_roots=()):
    """Print Assumptions under every property theorem, forbidden-vernacular scan,
    pinned statements. Returns (n_theorems, problems, assumptions_report)."""
    problems = []
    closure = dep_closure([prop_file] + list(extra_roots))
    bad = scan_forbidden(closure)
    if bad:
        problems.append("forbidden vernacular: " + "; ".join(bad[:5]))
    thms = props_theorems(prop_file)
    if not thms:
        problems.append("no theorems in " + prop_file)
    # every theorem in Props must be closed by `exact`
    txt = open(os.path.join(COQ, prop_file)).read()
    pinned_path = os.path.join(COQ, "pinned", prop_id + ".json")
    pinned = json.load(open(pinned_path)) if os.path.exists(pinned_path) else {}
    hashes = statement_hashes(prop_file)
    for t in thms:
        key = "%s.%s" % (prop_id, t)
        if key not in pinned:
            problems.append("theorem %s has no pinned statement (run ./check --pin %s)" % (t, prop_id))
        elif pinned[key] != hashes.get(t):
            problems.append("statement of theorem %s differs from the pinned one" % t)
    for key in pinned:
        if key.startswith(prop_id + ".") and key.split(".", 1)[1] not in thms:
            problems.append("pinned theorem %s is missing from %s" % (key, prop_file))
    mod = prop_file[len("theories/"):-2].replace("/", ".")
    d = os.path.join(CACHE, "audit")
    os.makedirs(d, exist_ok=True)
    src = "From Cddl Require Import %s.\n" % mod
    for t in thms:
        src += 'Goal True. idtac "@@THM %s". Abort.\nPrint Assumptions %s.\n' % (t, t)
    apath = os.path.join(d, "Audit%s.v" % prop_id)
    open(apath, "w").write(src)
    rc, out = sh(["timeout", "300", "coqc", "-Q", os.path.join(COQ, "theories"), "Cddl", apath], cwd=d, timeout=330)
    report = {}
    if rc != 0:
        problems.append("audit file failed to compile: " + out[-500:])
    else:
        chunks = out.split("@@THM ")[1:]
        for c in chunks:
            name, _, rest = c.partition("\n")
            rest = rest.strip()
            if rest.startswith("Closed under the global context"):
                report[name.strip()] = []
            else:
                axs = re.findall(r"^([A-Za-z0-9_.']+)\s*:", rest, flags=re.M)
                report[name.strip()] = axs
                for a in axs:
                    if a not in ALLOWED_AXIOMS:
                        problems.append("theorem %s depends on non-allow-listed axiom %s" % (name.strip(), a))
        for t in thms:
            if t not in report:
                problems.append("no Print Assumptions output for " + t)
    return len(thms), problems, report


def pin(prop_id, prop_file):
    os.makedirs(os.path.join(COQ, "pinned"), exist_ok=True)
    pinned_path = os.path.join(COQ, "pinned", prop_id + ".json")
    pinned = {}
    for t, h in statement_hashes(prop_file).items():
        pinned["%s.%s" % (prop_id, t)] = h
    json.dump(pinned, open(pinned_path, "w"), indent=1, sort_keys=True)
    print("pinned", prop_id, len(statement_hashes(prop_file)), "statements")


# ---------------------------------------------------------------------------
# Rust harness and OCaml oracles
# ---------------------------------------------------------------------------

def build_harness(bin="c11", profile="release", rustflags=None):
    """cargo build of one driver binary of /verif/harness (src/bin/<bin>.rs) against /repo's working tree."""
    h = os.path.join(VERIF, "harness")
    if REPO != "/repo":
        # development aid (seeded-defect runs against a scratch worktree): a copy of the harness that depends on REPO
        import shutil
        alt = os.path.join(CACHE, "harness_alt")
        shutil.rmtree(alt, ignore_errors=True)
        shutil.copytree(h, alt, ignore=shutil.ignore_patterns("target"))
        for root, _, files in os.walk(alt):
            for fn in files:
                if fn.endswith((".toml", ".rs")):
                    pth = os.path.join(root, fn)
                    txt = open(pth).read()
                    if "/repo" in txt:
                        open(pth, "w").write(txt.replace('"/repo', '"' + REPO))
        h = alt
    with Lock("cargo"):
        cmd = ["cargo", "build", "--offline", "--bin", bin] + (["--release"] if profile == "release" else [])
        env = {"CARGO_TARGET_DIR": TARGET}
        if rustflags:
            env["RUSTFLAGS"] = rustflags
        prof_dir = os.path.join(TARGET, profile if profile == "release" else "debug")

        def lib_is_ours():
            # libcddl.rlib carries no hash in its name: a build of ANOTHER checkout of the crate into the same target
            # directory silently replaces it while cargo still reports "Fresh". The dep-info names the sources used.
            d = os.path.join(prof_dir, "deps", "cddl.d")
            try:
                txt = open(d).read()
            except FileNotFoundError:
                return True
            return (" " + REPO + "/src/lib.rs") in txt

        if not lib_is_ours():
            sh(["cargo", "clean", "--offline", "-p", "cddl"] + (["--release"] if profile == "release" else []), cwd=h, timeout=300, env=env)
        rc, out = sh(cmd, cwd=h, timeout=1800, env=env)
        if rc == 0 and not lib_is_ours():
            sh(["cargo", "clean", "--offline", "-p", "cddl"] + (["--release"] if profile == "release" else []), cwd=h, timeout=300, env=env)
            rc, out = sh(cmd, cwd=h, timeout=1800, env=env)
        if rc != 0:
            raise RuntimeError("harness build failed:\n" + out[-4000:])
    return os.path.join(prof_dir, bin)


def build_cli(profile="release"):
    """cargo build of the cddl binary of /repo's working tree into the cache target dir."""
    with Lock("cargo"):
        cmd = ["cargo", "build", "--offline", "--bin", "cddl"] + (["--release"] if profile == "release" else [])
        rc, out = sh(cmd, cwd=REPO, timeout=1800, env={"CARGO_TARGET_DIR": os.path.join(CACHE, "target_cli")})
        if rc != 0:
            raise RuntimeError("cli build failed:\n" + out[-4000:])
    return os.path.join(CACHE, "target_cli", profile if profile == "release" else "debug", "cddl")


def build_oracle(name, modules):
    """Compile oracle/<name>_main.ml with extracted modules oracle/gen/<m>.ml. Returns binary path."""
    with Lock("oracle"):
        os.makedirs(ORACLE_BUILD, exist_ok=True)
        srcs = []
        files = [os.path.join(VERIF, "oracle", "common.ml")]
        for m in modules:
            files += [os.path.join(VERIF, "oracle", "gen", m + ".mli"), os.path.join(VERIF, "oracle", "gen", m + ".ml")]
        files.append(os.path.join(VERIF, "oracle", name + "_main.ml"))
        h = hashlib.sha256()
        for f in files:
            h.update(open(f, "rb").read())
        stamp = os.path.join(ORACLE_BUILD, name + ".stamp")
        binp = os.path.join(ORACLE_BUILD, name + "_oracle")
        if os.path.exists(binp) and os.path.exists(stamp) and open(stamp).read() == h.hexdigest():
            return binp
        d = os.path.join(ORACLE_BUILD, name)
        os.makedirs(d, exist_ok=True)
        for f in files:
            open(os.path.join(d, os.path.basename(f)), "wb").write(open(f, "rb").read())
        rc, out = sh(["ocamlfind", "ocamlopt", "-O2", "-w", "-a"] + [os.path.basename(f) for f in files] + ["-o", binp],
                     cwd=d, timeout=600)
        if rc != 0:
            raise RuntimeError("oracle build failed:\n" + out[-3000:])
        open(stamp, "w").write(h.hexdigest())
        return binp


def run_tool(binary, lines, shards=NPROC, timeout=900, env=None, multi=False):
    """Feed `lines` (one case per line) to `binary`, sharded; returns list of output lines
    aligned with the input (each input line must yield exactly one output line)."""
    if not lines:
        return []
    shards = max(1, min(shards, len(lines) if multi else (len(lines) + 199) // 200))
    size = (len(lines) + shards - 1) // shards
    chunks = [lines[i:i + size] for i in range(0, len(lines), size)]

    def one(chunk):
        e = dict(os.environ)
        if env:
            e.update(env)
        res = []
        while True:
            hung = False
            try:
                p = subprocess.run([binary], input="\n".join(chunk) + "\n", stdout=subprocess.PIPE, stderr=subprocess.DEVNULL,
                                   text=True, timeout=timeout, env=e)
                stdout, rcode = p.stdout, p.returncode
            except subprocess.TimeoutExpired as ex:
                # a case that does not return: everything printed so far is kept, the next case is the one that hangs
                hung = True
                so = ex.stdout or ""
                stdout = so.decode("utf-8", "replace") if isinstance(so, bytes) else so
                rcode = "timeout"
            out = stdout.split("\n")
            if out and out[-1] == "":
                out.pop()
            if multi:
                return out
            if hung and stdout and not stdout.endswith("\n") and out:
                out.pop()          # partial last line
            if len(out) >= len(chunk):
                return res + out[:len(chunk)]
            # the process died (abort / stack overflow) or hung on case len(out): mark it, continue after it
            res += out + [("HANG (no result within %ss)" % timeout) if hung else ("CRASH rc=%s" % rcode)]
            chunk = chunk[len(out) + 1:]
            if not chunk:
                return res

    with ThreadPoolExecutor(max_workers=shards) as ex:
        parts = list(ex.map(one, chunks))
    out = []
    for p in parts:
        out += p
    return out


def vm_compute_slice(prop_id, preamble, exprs, timeout=600):
    """Evaluate Gallina expressions (each : list N of character codes) with vm_compute inside coqc;
    returns the list of decoded strings. Guards the extraction step."""
    d = os.path.join(CACHE, "vmslice")
    os.makedirs(d, exist_ok=True)
    src = preamble + "\n"
    for i, e in enumerate(exprs):
        src += 'Goal True. idtac "@@CASE %d". Abort.\nEval vm_compute in (%s).\n' % (i, e)
    p = os.path.join(d, "Slice%s.v" % prop_id)
    open(p, "w").write(src)
    rc, out = sh(["timeout", str(timeout), "coqc", "-noglob", "-Q", os.path.join(COQ, "theories"), "Cddl", p], cwd=d,
                 timeout=timeout + 30)
    if rc != 0:
        raise RuntimeError("vm_compute slice failed: " + out[-2000:])
    res = []
    for c in out.split("@@CASE ")[1:]:
        body = c.split("\n", 1)[1]
        m = re.search(r"=\s*\[(.*?)\]\s*:\s*list N", body, flags=re.S)
        if not m:
            res.append("?" + body[:80])
            continue
        nums = [int(x) for x in re.findall(r"\d+", m.group(1))]
        res.append("".join(chr(n) for n in nums))
    return res


def coq_list(nums):
    return "[" + "; ".join(str(n) for n in nums) + "]%N"


# ---------------------------------------------------------------------------
# Known findings, evidence, verdict
# ---------------------------------------------------------------------------

def known_findings(prop_id):
    """open findings of a property, read from findings.d/ (known_findings.json is assembled from the same files)"""
    out = []
    d = os.path.join(VERIF, "findings.d")
    if os.path.isdir(d):
        for f in sorted(os.listdir(d)):
            if f.endswith(".json"):
                for e in json.load(open(os.path.join(d, f))).get("findings", []):
                    if e.get("property") == prop_id and e.get("status") == "open":
                        out.append(e)
    return out


class Result:
    def __init__(self, prop_id, tier, seed):
        self.prop_id, self.tier, self.seed = prop_id, tier, seed
        self.t0 = time.time()
        self.violations = []       # (description, replay dict)
        self.known_seen = []       # finding dicts
        self.coverage = {}
        self.assumptions = []
        self.notes = []

    def violation(self, what, replay, no_input=False):
        self.violations.append((what, replay, no_input))

    def known(self, finding):
        if finding["id"] not in [f["id"] for f in self.known_seen]:
            self.known_seen.append(finding)

    def finish(self, level="proof"):
        # a run against a scratch copy of the repository (VERIF_REPO, development aid) must not overwrite the evidence of /repo
        out_root = VERIF if REPO == "/repo" else CACHE
        os.makedirs(os.path.join(out_root, "evidence"), exist_ok=True)
        os.makedirs(os.path.join(out_root, "replays"), exist_ok=True)
        import glob as _glob
        for old in _glob.glob(os.path.join(out_root, "replays", "%s-%d-*.json" % (self.prop_id, self.seed))):
            os.remove(old)          # replays of an earlier run with this seed are stale
        for f in self.known_seen:
            print("KNOWN-FINDING: property=%s %s" % (self.prop_id, f["what_fails"]))
        lines = []
        for i, (what, replay, no_input) in enumerate(self.violations[:20]):
            path = os.path.join(out_root, "replays", "%s-%d-%d.json" % (self.prop_id, self.seed, i))
            json.dump({"property": self.prop_id, "what": what, "replay": replay}, open(path, "w"), indent=1)
            lines.append("VIOLATION property=%s replay=%s%s" % (self.prop_id, path, " no-failing-input-found" if no_input else ""))
            print("  " + what[:300], file=sys.stderr)
        cov = dict(self.coverage)
        cov["known_findings_seen"] = [f["id"] for f in self.known_seen]
        if self.notes:
            cov["notes"] = self.notes
        ev = {"property_id": self.prop_id, "tier": self.tier, "seed": self.seed, "level": level, "coverage": cov,
              "assumptions": self.assumptions, "wall_s": round(time.time() - self.t0, 2),
              "violations": len(self.violations)}
        json.dump(ev, open(os.path.join(out_root, "evidence", self.prop_id + ".json"), "w"), indent=1)
        for l in lines:
            print(l)
        if not lines:
            print("OK property=%s tier=%s wall=%.1fs" % (self.prop_id, self.tier, time.time() - self.t0))
        return 1 if lines else 0


def prove(res, prop_id, prop_file, extra_targets=()):
    """Steps 1-2 of DESIGN.md section 2. Fills coverage; returns True when all obligations check."""
    targets = [prop_file[:-2] + ".vo"] + list(extra_targets)
    ok, log = coq_build(targets)
    nthm = len(props_theorems(prop_file)) if os.path.exists(os.path.join(COQ, prop_file)) else 0
    res.coverage["checker_cmd"] = "cd /verif/coq && coq_makefile -f _CoqProject -o Makefile <all .v> && make -j16 " + " ".join(targets) + " ; coqc Audit%s.v (Print Assumptions)" % prop_id
    res.coverage["trusted_base"] = list(KERNEL_TB)
    res.coverage["obligations"] = max(nthm, 1)
    if not ok:
        item = failing_coq_item(log)
        res.coverage["discharged"] = 0
        res.proof_broken = "Coq build failed at %s: %s" % (item, log[-600:])
        return False
    n, problems, report = audit(prop_id, prop_file, [t[:-3] + ".v" for t in extra_targets])
    res.coverage["files_in_closure"] = dep_closure([prop_file] + [t[:-3] + ".v" for t in extra_targets])
    res.coverage["obligations"] = n
    res.coverage["assumptions_report"] = report
    res.coverage["theorems"] = sorted(report.keys())
    if problems:
        res.coverage["discharged"] = 0
        res.proof_broken = "audit: " + "; ".join(problems)
        return False
    res.coverage["discharged"] = n
    res.proof_broken = None
    return True
