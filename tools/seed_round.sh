#!/bin/sh
# tools/seed_round.sh Cxx-k ...   : confirm (scratch worktree), run the property's checks against it (scratch), import into seeded/
# serialised by a lock: the confirmation worktree and the scratch cache are shared
exec 9>/tmp/seeds/pipeline.lock
flock 9
for id in "$@"; do
  prop=$(echo $id | cut -d- -f1)
  case $prop in
    C04) checks=C04,C02,C08;; C09) checks=C09,C08;; C10) checks=C10,C02,C01;; C16) checks=C16,C06;; C08) checks=C08,C01,C02;; *) checks=$prop;;
  esac
  python3 /verif/tools/confirm_seed.py /tmp/seeds/$id >> /tmp/seeds/pipeline.log 2>&1
  echo "=== $id ($checks)" >> /tmp/seeds/pipeline.log
  python3 /verif/tools/run_seeded.py /tmp/seeds/$id --scratch --checks $checks --seeds 0,1 >> /tmp/seeds/pipeline.log 2>&1
  python3 /verif/tools/import_seed.py /tmp/seeds/$id >> /tmp/seeds/pipeline.log 2>&1
done
