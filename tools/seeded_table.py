#!/usr/bin/env python3
"""Print the markdown table of seeded defects and which checks caught them (from seeded/*/meta.json)."""
import glob, json, os
rows = []
for d in sorted(glob.glob("/verif/seeded/*/")):
    m = json.load(open(os.path.join(d, "meta.json")))
    name = os.path.basename(d.rstrip("/"))
    caught, missed = [], []
    for run in m.get("check_runs", []):
        for k, v in run["results"].items():
            c = k.split("/")[0]
            (caught if v["exit"] != 0 else missed).append(c)
    caught = sorted(set(caught))
    missed = sorted(set(missed) - set(caught))
    first = ""
    for run in m.get("check_runs", []):
        for k, v in run["results"].items():
            if v["exit"] != 0 and v.get("detail"):
                first = v["detail"][0][:110].replace("|", "/")
                break
        if first:
            break
    rows.append((name, m.get("summary", "")[:150].replace("|", "/").replace("\n", " "), ", ".join(caught) or "-", ", ".join(missed) or "-", first))
print("| seed | what it changes | caught by | ran clean | first report |")
print("|---|---|---|---|---|")
for r in rows:
    print("| %s | %s | %s | %s | %s |" % r)
