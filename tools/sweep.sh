#!/bin/sh
# tools/sweep.sh <tier> <seed>...   runs every claimed check at the given seeds on /repo as it is; log to .cache/sweep-<tier>.log
tier=$1; shift
cd /verif
log=/verif/.cache/sweep-$tier.log
for s in "$@"; do
  for p in C01 C02 C03 C04 C05 C06 C07 C08 C09 C10 C11 C12 C13 C14 C15 C16 C17 C18 C20; do
    t0=$(date +%s)
    VERIF_SEED=$s ./check $p --tier $tier > /verif/.cache/sweep-out.txt 2>&1; rc=$?
    t1=$(date +%s)
    echo "$p seed=$s tier=$tier exit=$rc wall=$((t1-t0))s $(grep -c '^VIOLATION' /verif/.cache/sweep-out.txt) violations, $(grep -c '^KNOWN-FINDING' /verif/.cache/sweep-out.txt) known" >> $log
    if [ $rc -ne 0 ]; then cp /verif/.cache/sweep-out.txt /verif/.cache/sweep-fail-$p-$s-$tier.txt; grep -m3 '^VIOLATION' /verif/.cache/sweep-out.txt >> $log; fi
  done
done
echo "SWEEP DONE $tier $*" >> $log
