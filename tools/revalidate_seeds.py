#!/usr/bin/env python3
"""Re-validate every kept seeded change against /repo's CURRENT HEAD:  tools/revalidate_seeds.py [ids...]
For each seeded/<id>: in a scratch worktree of HEAD apply patch.diff, run the demonstration (must fail), revert, run it again
(must pass) - the crate's whole suite is NOT re-run here (it was when the change was confirmed) - then, when the change still
manifests, run the listed checks against it (tools/run_seeded.py --scratch) and record everything in seeded/<id>/meta.json
under "revalidated".  Nothing touches /repo's working tree."""
import json, os, re, shutil, subprocess, sys, glob
WT = os.environ.get("REVAL_WT", "/tmp/confirm-wt")
TARGET = os.environ.get("REVAL_TARGET", "/tmp/confirm-target")
CHECKS = {"C04": "C04,C02,C08", "C09": "C09,C08", "C10": "C10,C02,C01", "C16": "C16,C06", "C01": "C01", "C02": "C02", "C08": "C08,C01,C02"}


def sh(cmd, cwd=None, timeout=3600):
    p = subprocess.run(cmd, shell=True, cwd=cwd, stdout=subprocess.PIPE, stderr=subprocess.STDOUT, text=True, timeout=timeout,
                       env=dict(os.environ, CARGO_TARGET_DIR=TARGET, CARGO_NET_OFFLINE="true"))
    return p.returncode, p.stdout


def demo_cmd(d, name):
    """place the demonstration the way tools/confirm_seed.py does; cddl-derive demonstrations carry their own fixture"""
    src = open(os.path.join(d, "demo.rs")).read()
    fixtures = glob.glob(os.path.join(d, "*.cddl"))
    if fixtures or "cddl_derive" in src:
        os.makedirs(os.path.join(WT, "cddl-derive", "tests", "fixtures"), exist_ok=True)
        for f in fixtures:
            shutil.copy(f, os.path.join(WT, "cddl-derive", "tests", "fixtures"))
        k = os.path.basename(d).split("-")[1]
        tname = "seed_c17_demo_%s" % k
        path = os.path.join(WT, "cddl-derive", "tests", tname + ".rs")
        return path, "cargo test --offline -p cddl-derive --test %s" % tname
    if "#[test]" in src:
        return os.path.join(WT, "tests", name + ".rs"), "cargo test --offline --test %s" % name
    os.makedirs(os.path.join(WT, "examples"), exist_ok=True)
    return os.path.join(WT, "examples", name + ".rs"), "cargo run --offline --example %s" % name


def main():
    ids = sys.argv[1:] or sorted(os.path.basename(p.rstrip("/")) for p in glob.glob("/verif/seeded/*/"))
    head = sh("git -C /repo rev-parse --short HEAD")[1].strip()
    if not os.path.isdir(WT):
        sh("git -C /repo worktree add --detach %s HEAD" % WT)
    for sid in ids:
        d = os.path.join("/verif/seeded", sid)
        mp = os.path.join(d, "meta.json")
        meta = json.load(open(mp))
        sh("git reset -q --hard && git checkout -q --detach %s && git reset -q --hard %s && git clean -fdq" % (head, head), cwd=WT)
        rv = {"repo_head": head}
        rc, out = sh("git apply %s || git apply -3 %s" % (os.path.join(d, "patch.diff"), os.path.join(d, "patch.diff")), cwd=WT)
        rv["applies"] = rc == 0
        if rc == 0:
            name = "seed_demo_" + sid.lower().replace("-", "_")
            path, cmd = demo_cmd(d, name)
            shutil.copy(os.path.join(d, "demo.rs"), path)
            rc1, out1 = sh(cmd, cwd=WT)
            rv["demo_with_patch_exit"] = rc1
            sh("git reset -q --hard", cwd=WT)
            rc2, out2 = sh(cmd, cwd=WT)
            rv["demo_without_patch_exit"] = rc2
            rv["manifests"] = rc1 != 0 and rc2 == 0
            sh("git clean -fdq", cwd=WT)
        else:
            rv["manifests"] = False
            rv["apply_error"] = out[-300:]
        if rv["manifests"]:
            # run_seeded applies the patch itself in its own scratch worktree
            tmp = os.path.join(os.environ.get("REVAL_TMP", "/tmp/seeds-reval"), sid)
            shutil.rmtree(tmp, ignore_errors=True)
            os.makedirs(tmp)
            shutil.copy(os.path.join(d, "patch.diff"), tmp)
            json.dump({"property": meta["property"]}, open(os.path.join(tmp, "meta.json"), "w"))
            checks = CHECKS.get(meta["property"], meta["property"])
            r = subprocess.run(["python3", "/verif/tools/run_seeded.py", tmp, "--scratch", "--checks", checks, "--seeds", "0,1"],
                               stdout=subprocess.PIPE, stderr=subprocess.STDOUT, text=True)
            try:
                res = json.load(open(os.path.join(tmp, "result.json")))
                rv["detected"] = res["detected"]
                rv["results"] = {k: {"exit": v["exit"], "violations": v["violations"], "detail": v["detail"][:1]} for k, v in res["results"].items()}
            except Exception as e:
                rv["detected"] = None
                rv["error"] = r.stdout[-300:]
        meta["revalidated"] = rv
        json.dump(meta, open(mp, "w"), indent=1)
        print(sid, "applies" if rv["applies"] else "DOES-NOT-APPLY", "manifests" if rv["manifests"] else "no-longer-manifests",
              "detected=%s" % rv.get("detected"), flush=True)


if __name__ == "__main__":
    sys.exit(main())
