#!/usr/bin/env python3
"""Import a confirmed seeded defect into /verif/seeded/<id>/ :  tools/import_seed.py /tmp/seeds/C01-1 [...]
Needs confirm.json (tools/confirm_seed.py) with confirmed=true; merges result.json (tools/run_seeded.py) if present."""
import json, os, shutil, sys
for d in sys.argv[1:]:
    d = os.path.abspath(d)
    name = os.path.basename(d)
    cpath = os.path.join(d, "confirm.json")
    if not os.path.exists(cpath):
        print(name, "no confirm.json - skipped"); continue
    conf = json.load(open(cpath))
    if not conf.get("confirmed"):
        print(name, "not confirmed - skipped"); continue
    out = os.path.join("/verif/seeded", name)
    os.makedirs(out, exist_ok=True)
    shutil.copy(os.path.join(d, "patch.diff"), out)
    shutil.copy(os.path.join(d, "demo.rs"), out)
    meta = json.load(open(os.path.join(d, "meta.json")))
    meta["confirmed_by_coordinator"] = {"repo_head": conf["repo_head"], "applies": conf["applies"],
        "demo_with_patch_exit": conf["demo_with_patch_exit"], "demo_without_patch_exit": conf["demo_without_patch_exit"],
        "test_suite_with_patch": conf["suite_with_patch"],
        "how": "tools/confirm_seed.py in a scratch worktree of /repo: patch applied, demo fails, whole test suite passes, patch reverted, demo passes"}
    rpath = os.path.join(d, "result.json")
    old = {}
    if os.path.exists(os.path.join(out, "meta.json")):
        old = json.load(open(os.path.join(out, "meta.json")))
    runs = old.get("check_runs", [])
    if os.path.exists(rpath):
        r = json.load(open(rpath))
        entry = {"detected": r["detected"], "tier": r["tier"], "repo_head": r["repo_head"], "results": r["results"]}
        if entry not in runs:
            runs.append(entry)
    if "superseded" in old:
        meta["superseded"] = old["superseded"]
    meta["check_runs"] = runs
    meta["detected"] = any(x["detected"] for x in runs) if runs else None
    json.dump(meta, open(os.path.join(out, "meta.json"), "w"), indent=1)
    print(name, "imported; detected =", meta["detected"])
