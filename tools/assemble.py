#!/usr/bin/env python3
"""Assemble MANIFEST.json from manifest.d/*.json and known_findings.json from findings.d/*.json.
Properties without a manifest fragment are listed under not_applicable with the reason in
manifest.d/not_claimed.json (or a default 'not built yet' reason)."""
import glob, json, os
V = os.path.dirname(os.path.dirname(os.path.abspath(__file__)))
os.chdir(V)
props = [json.loads(l)["id"] for l in open("properties.jsonl")]
checks = []
for f in sorted(glob.glob("manifest.d/C*.json")):
    checks.append(json.load(open(f)))
claimed = {c["property_id"] for c in checks}
reasons = json.load(open("manifest.d/not_claimed.json")) if os.path.exists("manifest.d/not_claimed.json") else {}
na = []
for p in props:
    if p not in claimed:
        na.append({"property_id": p, "reason": reasons.get(p, "not claimed: the check for this property has not been built yet (no technique switch; see DESIGN.md section 9)")})
m = {
 "version": 1,
 "setup_cmd": "./setup.sh",
 "hooks": json.load(open("manifest.d/hooks.json")),
 "engines": [
  {"name": "coq", "path": "coq/", "serves_properties": sorted(claimed), "kind_free_text": "Coq 8.16.1 development: models, RFC specifications, theorems (theories/Props/Cxx.v hold only statements closed by exact)"},
  {"name": "harness", "path": "harness/", "serves_properties": sorted(claimed), "kind_free_text": "Rust driver binaries (one per property) linking /repo's working tree; line protocol"},
  {"name": "oracle", "path": "oracle/", "serves_properties": sorted(claimed), "kind_free_text": "OCaml drivers around the models extracted from Coq (ExtrOcamlBasic only)"},
  {"name": "gen", "path": "gen/", "serves_properties": sorted(claimed), "kind_free_text": "translators regenerating theories/Generated/*.v from /repo sources on every run"}
 ],
 "checks": checks,
 "not_applicable": na,
 "notes": "One entry point: ./check <ID> --tier quick|thorough. Known findings: known_findings.json (assembled from findings.d/). See DESIGN.md."
}
json.dump(m, open("MANIFEST.json", "w"), indent=1)
findings, fixed = [], []
for f in sorted(glob.glob("findings.d/C*.json")):
    d = json.load(open(f))
    findings += d.get("findings", [])
    fixed += d.get("fixed", [])
json.dump({"comment": "Committed list of genuine defects of anweiss/cddl found by the checks (DESIGN.md section 8). Assembled from findings.d/ by tools/assemble.py; never written at run time.",
           "findings": findings, "fixed": fixed}, open("known_findings.json", "w"), indent=1)
print("claimed:", sorted(claimed), "findings:", len(findings), "fixed:", len(fixed))
