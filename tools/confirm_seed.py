#!/usr/bin/env python3
"""Confirm a seeded defect independently: tools/confirm_seed.py /tmp/seeds/Cxx-k
In a scratch worktree of /repo's HEAD: apply patch.diff, build, run the demo (must FAIL), run the crate's whole
test suite (must PASS), revert, run the demo (must PASS). Writes confirm.json next to the patch."""
import json, os, re, subprocess, sys, shutil
WT = "/tmp/confirm-wt"
TARGET = "/tmp/confirm-target"

def sh(cmd, cwd=None, timeout=3600):
    p = subprocess.run(cmd, shell=True, cwd=cwd, stdout=subprocess.PIPE, stderr=subprocess.STDOUT, text=True, timeout=timeout,
                       env=dict(os.environ, CARGO_TARGET_DIR=TARGET, CARGO_NET_OFFLINE="true"))
    return p.returncode, p.stdout

def main():
    d = os.path.abspath(sys.argv[1])
    meta = json.load(open(os.path.join(d, "meta.json")))
    if not os.path.isdir(WT):
        rc, out = sh("git -C /repo worktree add --detach %s HEAD" % WT)
        if rc: print(out); return 2
    sh("git reset -q --hard && git checkout -q --detach $(git -C /repo rev-parse HEAD) && git reset -q --hard && git clean -fdq", cwd=WT)
    res = {"repo_head": sh("git -C /repo rev-parse --short HEAD")[1].strip()}
    rc, out = sh("git apply %s" % os.path.join(d, "patch.diff"), cwd=WT)
    if rc:
        rc, out = sh("git apply -3 %s" % os.path.join(d, "patch.diff"), cwd=WT)
    res["applies"] = rc == 0
    if rc:
        res["apply_error"] = out[-500:]
        json.dump(res, open(os.path.join(d, "confirm.json"), "w"), indent=1); print(res); return 1
    # demo placement: as a test if it contains #[test], else as an example
    src = open(os.path.join(d, "demo.rs")).read()
    name = "seed_demo_" + os.path.basename(d).lower().replace("-", "_")
    import glob
    fixtures = glob.glob(os.path.join(d, "*.cddl"))
    if fixtures or "cddl_derive" in src:
        # a demonstration of the cddl-derive package: an integration test of that package with its fixture
        os.makedirs(os.path.join(WT, "cddl-derive", "tests", "fixtures"), exist_ok=True)
        for f in fixtures:
            shutil.copy(f, os.path.join(WT, "cddl-derive", "tests", "fixtures"))
        tname = "seed_c17_demo_%s" % os.path.basename(d).split("-")[1]
        path = os.path.join(WT, "cddl-derive", "tests", tname + ".rs"); cmd = "cargo test --offline -p cddl-derive --test %s" % tname
    elif "#[test]" in src:
        path = os.path.join(WT, "tests", name + ".rs"); cmd = "cargo test --offline --test %s" % name
    else:
        os.makedirs(os.path.join(WT, "examples"), exist_ok=True)
        path = os.path.join(WT, "examples", name + ".rs"); cmd = "cargo run --offline --example %s" % name
    # the crate's own suite first, without the demonstration in the tree
    rc2, out2 = sh("cargo test --workspace --no-fail-fast --offline 2>&1 | grep -E '^test result|FAILED|failed'", cwd=WT)
    oks = len(re.findall(r"test result: ok", out2)); fails = [l for l in out2.split("\n") if ("FAILED" in l or "failed" in l) and "test result: ok" not in l]
    passed = sum(int(x) for x in re.findall(r"(\d+) passed", out2))
    res["suite_with_patch"] = {"ok_lines": oks, "passed": passed, "other_failures": fails[:5]}
    shutil.copy(os.path.join(d, "demo.rs"), path)
    rc1, out1 = sh(cmd, cwd=WT)
    res["demo_with_patch_exit"] = rc1
    res["demo_with_patch_tail"] = out1[-400:]
    # revert the source change only (keep the demo)
    sh("git reset -q --hard", cwd=WT)
    rc3, out3 = sh(cmd, cwd=WT)
    res["demo_without_patch_exit"] = rc3
    os.remove(path)
    res["confirmed"] = (rc1 != 0) and (rc3 == 0) and not fails
    json.dump(res, open(os.path.join(d, "confirm.json"), "w"), indent=1)
    print(os.path.basename(d), "CONFIRMED" if res["confirmed"] else "NOT-CONFIRMED", res["suite_with_patch"], rc1, rc3)
    return 0

if __name__ == "__main__":
    sys.exit(main())
