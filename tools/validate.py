#!/usr/bin/env python3-vt
"""Validate MANIFEST.json and evidence/*.json against the schemas in /root/.vp (run with python3-vt)."""
import glob, json, jsonschema, sys
ok = True
def v(path, schema):
    global ok
    try:
        jsonschema.validate(json.load(open(path)), json.load(open(schema)))
        print("valid  ", path)
    except Exception as e:
        ok = False
        print("INVALID", path, str(e)[:300])
v("/verif/MANIFEST.json", "/root/.vp/MANIFEST.schema.json")
for f in sorted(glob.glob("/verif/evidence/*.json")):
    v(f, "/root/.vp/EVIDENCE.schema.json")
sys.exit(0 if ok else 1)
