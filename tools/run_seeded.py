#!/usr/bin/env python3
"""Run checks against a seeded defect:  tools/run_seeded.py <seeded dir> [--checks C01,C02] [--tier quick]
Applies <dir>/patch.diff to /repo (git apply), runs the checks, ALWAYS reverts (git checkout -- .), and records
the outcome in <dir>/result.json. /repo must be clean before and is clean after."""
import json, os, subprocess, sys, time

def sh(cmd, **kw):
    return subprocess.run(cmd, shell=True, stdout=subprocess.PIPE, stderr=subprocess.STDOUT, text=True, **kw)

def main():
    d = os.path.abspath(sys.argv[1])
    args = sys.argv[2:]
    tier = "quick"
    checks = None
    seeds = [0]
    i = 0
    while i < len(args):
        if args[i] == "--checks":
            checks = args[i + 1].split(","); i += 2
        elif args[i] == "--tier":
            tier = args[i + 1]; i += 2
        elif args[i] == "--seeds":
            seeds = [int(x) for x in args[i + 1].split(",")]; i += 2
        else:
            i += 1
    meta = json.load(open(os.path.join(d, "meta.json")))
    if checks is None:
        checks = [meta["property"]]
    scratch = "--scratch" in args
    repo = "/repo"
    envp = ""
    if scratch:
        # development aid: run against a scratch worktree instead of /repo itself (other work may be using /repo)
        base = os.environ.get("SEEDRUN_DIR", "/tmp/seedrun")
        repo = "%s/wt-%s" % (base, os.path.basename(d))
        sh("mkdir -p %s && git -C /repo worktree remove --force %s; git -C /repo worktree add --detach %s HEAD" % (base, repo, repo))
        envp = "VERIF_REPO=%s VERIF_CACHE=%s/cache " % (repo, base)
    st = sh("git -C %s status --porcelain --untracked-files=no" % repo).stdout.strip()
    if st:
        print("refusing: %s is not clean:\n" % repo + st); return 2
    r = sh("git -C %s apply %s || git -C %s apply -3 %s" % (repo, os.path.join(d, "patch.diff"), repo, os.path.join(d, "patch.diff")))
    if r.returncode != 0:
        print("patch does not apply:", r.stdout); return 2
    results = {}
    try:
        for c in checks:
            for s in seeds:
                t0 = time.time()
                r = sh(envp + "VERIF_SEED=%d ./check %s --tier %s" % (s, c, tier), cwd="/verif")
                viol = [l for l in r.stdout.split("\n") if l.startswith("VIOLATION")]
                detail = [l.strip() for l in r.stdout.split("\n") if l.startswith("  ")][:3]
                results["%s/seed%d" % (c, s)] = {"exit": r.returncode, "violations": len(viol), "first": viol[:1], "detail": detail,
                                                 "wall_s": round(time.time() - t0, 1)}
                print(c, "seed", s, "exit", r.returncode, "violations", len(viol), (detail[:1] or [""])[0][:200])
                if r.returncode != 0:
                    break
    finally:
        sh("git -C %s checkout -- ." % repo)
        sh("git -C %s clean -fd -- examples tests" % repo)
        if scratch:
            sh("git -C /repo worktree remove --force %s" % repo)
    detected = any(v["exit"] != 0 for v in results.values())
    json.dump({"detected": detected, "tier": tier, "results": results, "repo_head": sh("git -C /repo rev-parse --short HEAD").stdout.strip()},
              open(os.path.join(d, "result.json"), "w"), indent=1)
    print("DETECTED" if detected else "MISSED")
    return 0

if __name__ == "__main__":
    sys.exit(main())
