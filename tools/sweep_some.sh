#!/bin/sh
# tools/sweep_some.sh <tier> <seed> <props...>
tier=$1; s=$2; shift; shift
cd /verif
log=/verif/.cache/sweep-$tier.log
for p in "$@"; do
  t0=$(date +%s)
  VERIF_SEED=$s ./check $p --tier $tier > /verif/.cache/sweep-out-$p.txt 2>&1; rc=$?
  t1=$(date +%s)
  echo "$p seed=$s tier=$tier exit=$rc wall=$((t1-t0))s $(grep -c '^VIOLATION' /verif/.cache/sweep-out-$p.txt) violations, $(grep -c '^KNOWN-FINDING' /verif/.cache/sweep-out-$p.txt) known" >> $log
  if [ $rc -ne 0 ]; then cp /verif/.cache/sweep-out-$p.txt /verif/.cache/sweep-fail-$p-$s-$tier.txt; grep -m3 '^VIOLATION' /verif/.cache/sweep-out-$p.txt >> $log; fi
done
echo "SWEEP DONE $tier $s $*" >> $log
